#!/venv/bin/python
"""Entry point: vcheck.py <Cxx> [--tier quick|thorough] ; exit 0 held / 1 violation / 2 machinery failure."""
import argparse
import importlib
import os
import sys

HERE = os.path.dirname(os.path.abspath(__file__))
sys.path.insert(0, HERE)
REPO = os.environ.get("VERIF_REPO", "/repo")   # /repo unless a background run points at a snapshot of it
sys.path.insert(0, REPO)               # the current working tree of the implementation
os.environ.setdefault("PYTHONHASHSEED", "0")
os.environ.setdefault("SETIGEN_VERIF", "1")
os.environ.setdefault("MPLBACKEND", "Agg")
os.environ.setdefault("TQDM_DISABLE", "1")
import warnings
warnings.filterwarnings("ignore")
import logging
logging.disable(logging.WARNING)


def replay(path):
    """Re-run the owning check with the recorded seed and tier and report whether the recorded case diverges again."""
    import json
    from harness import core
    rec = json.load(open(path))
    pid, seed, tier = rec["property"], int(rec.get("seed", 0)), rec.get("tier", "quick")
    print("replaying %s: property=%s module=%s kind=%s seed=%d tier=%s" % (path, pid, rec["module"], rec["kind"], seed, tier))
    print("recorded abstract arguments: %s" % json.dumps(rec["args"])[:600])
    mod = importlib.import_module("harness.checks.%s" % pid.lower())
    ctx = core.Ctx(pid, tier, seed, keep_replays=True)
    mod.run(ctx)
    again = [v for v in ctx.violations if v["module"] == rec["module"] and v["kind"] == rec["kind"] and v["args"] == rec["args"]]
    ctx.finish()
    if again:
        print("REPRODUCED: the recorded case diverges again (%d time(s))" % len(again))
        return 1
    print("NOT REPRODUCED: the recorded case does not diverge on the current tree")
    return 0


def main():
    if len(sys.argv) >= 3 and sys.argv[1] == "replay":
        return replay(sys.argv[2])
    ap = argparse.ArgumentParser()
    ap.add_argument("prop")
    ap.add_argument("--tier", default=os.environ.get("VERIF_TIER", "quick"), choices=["quick", "thorough"])
    ap.add_argument("--seed", type=int, default=int(os.environ.get("VERIF_SEED", "0") or 0))
    a = ap.parse_args()
    from harness import core
    pid = a.prop.upper()
    try:
        mod = importlib.import_module("harness.checks.%s" % pid.lower())
    except ImportError as e:
        print("MACHINERY-FAILURE property=%s: no check module (%s)" % (pid, e))
        return 2
    import setigen
    if not os.path.abspath(setigen.__file__).startswith(os.path.abspath(REPO) + "/"):
        print("MACHINERY-FAILURE: setigen imported from %s, not %s" % (setigen.__file__, REPO))
        return 2
    return core.main_wrapper(mod.run, pid, a.tier, a.seed)


if __name__ == "__main__":
    sys.exit(main())
