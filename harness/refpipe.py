"""Harness-owned reference pipeline written from the definitions in the property text (not from the library):
digitise -> FIR + DFT -> requantise, with quantiser statistics from a stated common prefix."""
import numpy as np
import scipy.signal

FWHM = 2 * np.sqrt(2 * np.log(2))


def quantize_ref(x, target_mean, target_std, bits, mean, std):
    """clip(round((target_std/std) * (x - mean) + target_mean)); also returns the distance of each pre-rounding
    value from the nearest rounding tie (x.5), so that callers can tolerate 1 LSB only there."""
    factor = 0 if std == 0 else target_std / std
    pre = factor * (x - mean) + target_mean
    q = np.clip(np.around(pre), -2 ** (bits - 1), 2 ** (bits - 1) - 1)
    tie = np.abs(np.abs(pre - np.floor(pre)) - 0.5)
    return q, tie


def window_ref(taps, B, window_fn="hamming"):
    return scipy.signal.firwin(taps * B, cutoff=1.0 / B, window=window_fn, scale=True) * taps * B


def pfb_ref(x, taps, B, window_fn="hamming"):
    h = window_ref(taps, B, window_fn).reshape(taps, B)
    nrow = len(x) // B
    W = nrow // taps
    nout = (W - 1) * taps
    xr = np.asarray(x)[:W * taps * B].reshape(W * taps, B)
    s = np.zeros((nout, B), dtype=complex)
    for tau in range(taps):
        s += h[tau] * xr[tau:tau + nout]
    k = np.arange(B // 2)
    b = np.arange(B)
    dft = np.exp(-2j * np.pi * np.outer(b, k) / B)
    return s.dot(dft) / np.sqrt(B)


def pipeline(v, taps, B, start_chan, nch, bits, dig, dig_nstat, req_fwhm, req_nrows, window_fn="hamming",
             dig_bits=8, dig_fwhm=32.0):
    """v: real voltages of one (antenna, pol) for a whole recording (blocks*T + taps rows of B samples).
    Returns (complex integer spectra [nspec, nch], tie-distance array [nspec, nch] (min over components))."""
    tie_d = None
    if dig:
        pre = v[:dig_nstat]
        q, tie_d = quantize_ref(v, 0, dig_fwhm / FWHM, dig_bits, np.mean(pre), np.std(pre))
        v = q
    sp = pfb_ref(v, taps, B, window_fn)[:, start_chan:start_chan + nch]
    head = sp[:req_nrows]
    qr, tr = quantize_ref(np.real(sp), 0, req_fwhm / FWHM, bits, np.mean(np.real(head)), np.std(np.real(head)))
    qi, ti = quantize_ref(np.imag(sp), 0, req_fwhm / FWHM, bits, np.mean(np.imag(head)), np.std(np.imag(head)))
    return qr + 1j * qi, np.minimum(tr, ti), tie_d
