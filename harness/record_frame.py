"""Recorder for setigen.Frame executions (trace validation by spec/FrameTrace.tla).

Class / module level wrappers around the public frame calls that the listed properties talk about (construction, noise,
zero_data, signal injection, SNR queries, slice / de-drift / integrate); one event per OUTERMOST call, logged at its
return (also when it raises).  TLC evaluates no floats: the recorder projects every numeric clause onto a boolean
(`delta_ok`, `is_param`, `is_reest`, `value_ok`, ...) with the tolerance stated here, and the specification decides from
the tracked state WHICH of them the call owed (e.g. the first noise on a frame without estimate owes `is_param`, any
later one owes `is_reest`).  Also installed under the repository's own tests (harness/verif_frame_recorder.py)."""
import contextlib
import inspect
import math

import numpy as np
from astropy.stats import sigma_clip

import setigen as stg
from setigen import frame as _frame
from setigen import unit_utils

REL = 1e-12


def _close(a, b, rel=REL):
    a, b = float(a), float(b)
    return a == b or abs(a - b) <= rel * max(abs(a), abs(b))


class Recorder(object):
    def __init__(self):
        self.events = []
        self.objs = []
        self.oid = {}
        self.depth = 0
        self.held = {}          # frame id -> [(returned array object, copy)]: results a caller may still hold

    def hold(self, f, ret):
        if isinstance(ret, np.ndarray):
            self.held.setdefault(f, []).append((ret, np.array(ret, copy=True)))
            del self.held[f][:-3]

    def held_ok(self, f):
        return bool(all(np.array_equal(r, c) for r, c in self.held.get(f, [])))

    def fid(self, fr):
        k = id(fr)
        if k not in self.oid:
            self.objs.append(fr)
            self.oid[k] = len(self.objs)
        return self.oid[k]

    @staticmethod
    def est(fr):
        m, s = getattr(fr, "noise_mean", None), getattr(fr, "noise_std", None)
        if m is None or s is None:
            return {"zero": False, "m": "?", "s": "?"}
        return {"zero": bool(m == 0 and s == 0), "m": repr(float(m)), "s": repr(float(s))}

    @staticmethod
    def axes(fr):
        return (np.array(fr.fs, copy=True), np.array(fr.ts, copy=True), tuple(fr.shape), fr.df, fr.dt, fr.fch1, bool(fr.ascending),
                fr.t_start, fr.source_name if hasattr(fr, "source_name") else None)

    @staticmethod
    def axes_same(a, b):
        return bool(np.array_equal(a[0], b[0]) and np.array_equal(a[1], b[1]) and a[2:] == b[2:])

    def trace(self):
        return {"h": {"nf": max(1, len(self.objs))}, "ev": self.events}


def _args(orig, a, kw):
    """Arguments by parameter name (defaults applied); the call itself is always forwarded as (*a, **kw) unchanged."""
    try:
        b = inspect.signature(orig).bind(*a, **kw)
        b.apply_defaults()
        return dict(b.arguments)
    except TypeError:
        return None


def _reest(data):
    c = sigma_clip(data, sigma=3, maxiters=5, masked=False)
    return float(np.mean(c)), float(np.std(c))


def _delta_ok(before, after, ret):
    if not isinstance(ret, np.ndarray) or ret.shape != before.shape or after.shape != before.shape:
        return False
    want = before + ret
    if np.array_equal(after, want) or np.array_equal(after, want.astype(after.dtype)):
        return True
    return False


@contextlib.contextmanager
def recording(rec):
    F = _frame.Frame
    saved = []

    def patch(owner, name, make):
        orig = owner.__dict__[name] if isinstance(owner, type) else getattr(owner, name)
        saved.append((owner, name, orig))
        setattr(owner, name, make(orig))

    def outer(fn):
        """Run fn at depth + 1; returns (ret, exc)."""
        rec.depth += 1
        try:
            return fn(), None
        except Exception as e:
            return None, e
        finally:
            rec.depth -= 1

    def mk_init(orig):
        def __init__(self, *a, **kw):
            if rec.depth > 0:
                return orig(self, *a, **kw)
            ret, exc = outer(lambda: orig(self, *a, **kw))
            if exc is not None:
                raise exc
            how = "waterfall" if (a and a[0] is not None) or kw.get("waterfall") is not None else ("data" if kw.get("data") is not None else "sizes")
            k = self.chi2_df
            x = self.df * self.dt
            k_ok = k in (4 * math.floor(x + 0.5), 4 * math.ceil(x - 0.5)) or k == 4 * round(x)
            rec.events.append({"e": "Create", "fid": rec.fid(self), "how": how, "after": rec.est(self),
                               "data_zero": bool(not np.any(self.data)), "k_ok": bool(k_ok),
                               "axes_ok": bool(len(self.fs) == self.fchans and len(self.ts) == self.tchans and tuple(self.data.shape) == (self.tchans, self.fchans))})
        return __init__

    def noise_event(self, name, kind, params, call):
        f = rec.fid(self)
        before_est, before_axes = rec.est(self), rec.axes(self)
        before = np.array(self.data, copy=True)
        ret, exc = outer(call)
        after = np.asarray(self.data)
        ev = {"e": "Noise", "src": name, "fid": f, "kind": kind, "before": before_est, "after": rec.est(self),
              "st": "ok" if exc is None else type(exc).__name__,
              "axes_same": rec.axes_same(before_axes, rec.axes(self)),
              "data_same": bool(after.shape == before.shape and np.array_equal(after, before))}
        ev["held_ok"] = rec.held_ok(f)
        if exc is None:
            rec.hold(f, ret)
            ev["delta_ok"] = _delta_ok(before, after, ret)
            rm, rs = _reest(after)
            ev["is_reest"] = bool(_close(self.noise_mean, rm) and _close(self.noise_std, rs))
            k = self.chi2_df
            m, s = float(self.noise_mean), float(self.noise_std)
            if params is not None:
                pm, ps = params
                if kind == "chi2":
                    ev["is_param"] = bool(_close(m, pm) and _close(s, math.sqrt(2.0 * k) * pm / k, 1e-10))
                else:
                    ev["is_param"] = bool(_close(m, pm) and _close(s, ps))
            else:
                # parameters drawn from tables inside the call: the estimate must be the drawn parameters, which for
                # chi-squared noise obey std = sqrt(2 k) mean / k; for gaussian noise: anything but the re-estimate
                if kind == "chi2":
                    ev["is_param"] = bool(_close(s, math.sqrt(2.0 * k) * m / k, 1e-10))
                else:
                    ev["is_param"] = not ev["is_reest"]
        else:
            ev.update({"delta_ok": False, "is_reest": False, "is_param": False})
        rec.events.append(ev)
        if exc is not None:
            raise exc
        return ret

    def mk_add_noise(orig):
        def add_noise(self, *a, **kw):
            g = _args(orig, (self,) + a, kw)
            if rec.depth > 0 or g is None:
                return orig(self, *a, **kw)
            x_mean, x_std, x_min, noise_type = g.get("x_mean"), g.get("x_std"), g.get("x_min"), g.get("noise_type", "chi2")
            kind = "chi2" if str(noise_type) == "chi2" else ("truncated" if x_min is not None else "gaussian")
            try:
                pm = float(unit_utils.get_value(x_mean, None)) if not hasattr(x_mean, "unit") else float(x_mean.value)
                ps = None if x_std is None else float(x_std)
                params = (pm, ps if ps is not None else 0.0)
            except Exception:
                params = None
            return noise_event(self, "add_noise", kind, params, lambda: orig(self, *a, **kw))
        return add_noise

    def mk_add_noise_from_obs(orig):
        def add_noise_from_obs(self, *a, **kw):
            if rec.depth > 0:
                return orig(self, *a, **kw)
            g = _args(orig, (self,) + a, kw) or {}
            nt = g.get("noise_type", "chi2")
            has_min = g.get("x_min_array") is not None
            kind = "chi2" if str(nt) == "chi2" else ("truncated" if has_min else "gaussian")
            return noise_event(self, "add_noise_from_obs", kind, None, lambda: orig(self, *a, **kw))
        return add_noise_from_obs

    def mk_zero(orig):
        def zero_data(self, *a, **kw):
            if rec.depth > 0:
                return orig(self, *a, **kw)
            ret, exc = outer(lambda: orig(self, *a, **kw))
            rec.events.append({"e": "ZeroData", "fid": rec.fid(self), "after": rec.est(self), "data_zero": bool(not np.any(self.data)),
                               "shape_ok": bool(tuple(self.data.shape) == tuple(self.shape)), "st": "ok" if exc is None else type(exc).__name__})
            if exc is not None:
                raise exc
            return ret
        return zero_data

    def mk_signal(name):
        def make(orig):
            def inject(self, *a, **kw):
                if rec.depth > 0:
                    return orig(self, *a, **kw)
                f = rec.fid(self)
                before_est, before_axes = rec.est(self), rec.axes(self)
                before = np.array(self.data, copy=True)
                meta = dict(self.metadata) if isinstance(getattr(self, "metadata", None), dict) else None
                ret, exc = outer(lambda: orig(self, *a, **kw))
                after = np.asarray(self.data)
                ev = {"e": "Signal", "src": name, "fid": f, "before": before_est, "after": rec.est(self),
                      "st": "ok" if exc is None else type(exc).__name__,
                      "axes_same": rec.axes_same(before_axes, rec.axes(self)),
                      "meta_same": bool(meta is None or meta == self.metadata),
                      "data_same": bool(after.shape == before.shape and np.array_equal(after, before)),
                      "delta_ok": bool(exc is None and _delta_ok(before, after, ret)),
                      "held_ok": rec.held_ok(f)}
                if exc is None:
                    rec.hold(f, ret)
                rec.events.append(ev)
                if exc is not None:
                    raise exc
                return ret
            return inject
        return make

    def mk_snr(name):
        def make(orig):
            def q(self, *a, **kw):
                g = _args(orig, (self,) + a, kw)
                if rec.depth > 0 or g is None:
                    return orig(self, *a, **kw)
                x = [v for k, v in g.items() if k != "self"][0]
                before = rec.est(self)
                std, T = float(self.noise_std), int(self.tchans)
                # estimates of float32 data are float32 numbers: the relation holds to that precision
                rel = 1e-10 if not isinstance(self.noise_std, np.floating) or np.finfo(type(self.noise_std)).bits >= 64 else 8 * float(np.finfo(type(self.noise_std)).eps)
                ret, exc = outer(lambda: orig(self, *a, **kw))
                ok = False
                if exc is None:
                    try:
                        xv, rv = float(x), float(ret)
                        want = xv * std / math.sqrt(T) if name == "get_intensity" else xv * math.sqrt(T) / std
                        # a frame whose estimate is not a number (the sigma-clipped estimator on data whose squares underflow,
                        # e.g. a slice through the far tail of a Gaussian profile) has no SNR scale: not judged
                        ok = _close(rv, want, rel) or not math.isfinite(std) or not math.isfinite(want)
                    except Exception:
                        ok = True            # array-valued or unit-carrying argument: not projected
                rec.events.append({"e": "Snr", "src": name, "fid": rec.fid(self), "before": before, "after": rec.est(self),
                                   "std_zero": bool(std == 0), "st": "ok" if exc is None else type(exc).__name__, "value_ok": bool(ok)})
                if exc is not None:
                    raise exc
                return ret
            return q
        return make

    def derive_event(name, parent, call, axis=None):
        p = rec.fid(parent)
        pa = rec.axes(parent)
        pdata = np.array(parent.data, copy=True)
        pest = rec.est(parent)
        ret, exc = outer(call)
        ev = {"e": "Derive", "src": name, "parent": p, "st": "ok" if exc is None else type(exc).__name__,
              "parent_same": bool(rec.axes_same(pa, rec.axes(parent)) and np.array_equal(pdata, parent.data) and pest == rec.est(parent)),
              "child": 0, "keeps": {"asc": True, "df": True, "dt": True, "t_start": True, "source": True, "rows": True}, "own_data": True,
              "child_est": {"zero": False, "m": "?", "s": "?"}}
        if exc is None and isinstance(ret, F):
            ev["child"] = rec.fid(ret)
            df_ok = _close(ret.df, parent.df * (parent.fchans if axis == "f" else 1))
            dt_ok = _close(ret.dt, parent.dt * (parent.tchans if axis == "t" else 1))
            ev["keeps"] = {"asc": bool(ret.ascending) == bool(parent.ascending), "df": bool(df_ok), "dt": bool(dt_ok),
                           "t_start": bool(ret.t_start == parent.t_start), "source": bool(ret.source_name == parent.source_name),
                           "rows": bool(ret.tchans == (1 if axis == "t" else parent.tchans))}
            ev["own_data"] = bool(not np.shares_memory(ret.data, parent.data))
            ev["child_est"] = rec.est(ret)
        rec.events.append(ev)
        if exc is not None:
            raise exc
        return ret

    def mk_slice(orig):
        def get_slice(*a, **kw):
            g = _args(orig, a, kw)
            if rec.depth > 0 or g is None or not isinstance(g.get("fr"), F):
                return orig(*a, **kw)
            return derive_event("get_slice", g["fr"], lambda: orig(*a, **kw))
        return get_slice

    def mk_dedrift(orig):
        def dedrift(*a, **kw):
            g = _args(orig, a, kw)
            if rec.depth > 0 or g is None or not isinstance(g.get("fr"), F):
                return orig(*a, **kw)
            return derive_event("dedrift", g["fr"], lambda: orig(*a, **kw))
        return dedrift

    def mk_integrate(orig):
        def integrate(*a, **kw):
            g = _args(orig, a, kw)
            if rec.depth > 0 or g is None or not isinstance(g.get("fr"), F) or not g.get("as_frame"):
                return orig(*a, **kw)
            ax = "f" if g.get("axis") in ("f", 1) else "t"
            return derive_event("integrate", g["fr"], lambda: orig(*a, **kw), axis=ax)
        return integrate

    import sys
    # the package re-exports the functions under the names of their modules: go through sys.modules
    m_slice, m_dedrift, m_int = sys.modules["setigen.slice"], sys.modules["setigen.dedrift"], sys.modules["setigen.integrate"]
    try:
        patch(F, "__init__", mk_init)
        patch(F, "add_noise", mk_add_noise)
        patch(F, "add_noise_from_obs", mk_add_noise_from_obs)
        patch(F, "zero_data", mk_zero)
        patch(F, "add_signal", mk_signal("add_signal"))
        patch(F, "add_constant_signal", mk_signal("add_constant_signal"))
        patch(F, "get_intensity", mk_snr("get_intensity"))
        patch(F, "get_snr", mk_snr("get_snr"))
        patch(m_slice, "get_slice", mk_slice)
        patch(m_dedrift, "dedrift", mk_dedrift)
        patch(m_int, "integrate", mk_integrate)
        # the names re-exported by the package and used by Frame.get_slice / spectrum() / timeseries()
        for mod, name, src in ((stg, "get_slice", m_slice), (stg, "dedrift", m_dedrift), (stg, "integrate", m_int)):
            if hasattr(mod, name):
                saved.append((mod, name, getattr(mod, name)))
                setattr(mod, name, getattr(src, name))
        yield rec
    finally:
        for owner, name, orig in reversed(saved):
            setattr(owner, name, orig)
