"""Recorder for setigen.Frame executions (trace validation by spec/FrameTrace.tla).

Class / module level wrappers around the public frame calls that the listed properties talk about (construction, noise,
zero_data, signal injection, SNR queries, slice / de-drift / integrate); one event per OUTERMOST call, logged at its
return (also when it raises).  TLC evaluates no floats: the recorder projects every numeric clause onto a boolean
(`delta_ok`, `is_param`, `is_reest`, `value_ok`, ...) with the tolerance stated here, and the specification decides from
the tracked state WHICH of them the call owed (e.g. the first noise on a frame without estimate owes `is_param`, any
later one owes `is_reest`).  Also installed under the repository's own tests (harness/verif_frame_recorder.py)."""
import contextlib
import hashlib
import inspect
import math
import os

import numpy as np
from astropy.stats import sigma_clip

import setigen as stg
from setigen import frame as _frame
from setigen import unit_utils

REL = 1e-12


def _close(a, b, rel=REL):
    a, b = float(a), float(b)
    return a == b or abs(a - b) <= rel * max(abs(a), abs(b))


def _dig(a):
    a = np.ascontiguousarray(a)
    return hashlib.sha1(a.tobytes()).hexdigest()[:16] + ":" + "x".join(str(n) for n in a.shape) + ":" + a.dtype.str


def _sig(fr, fmt):
    """What a reader of a file written from `fr` must reconstruct, as exactly comparable items."""
    return {"fmt": fmt, "T": int(fr.tchans), "F": int(fr.fchans), "asc": bool(fr.ascending), "src": str(fr.source_name),
            "d32": _dig(np.asarray(fr.data).astype(np.float32))}


NOSIG = {"fmt": "?", "T": 0, "F": 0, "asc": False, "src": "?", "d32": "?"}


class Recorder(object):
    def __init__(self):
        self.paths = {}         # real path -> key
        self.snap = {}          # key -> (generation, format, axes snapshot, data copy, estimate, metadata)
        self.events = []
        self.objs = []
        self.oid = {}
        self.depth = 0
        self.held = {}          # frame id -> [(returned array object, copy)]: results a caller may still hold

    def hold(self, f, ret):
        if isinstance(ret, np.ndarray):
            self.held.setdefault(f, []).append((ret, np.array(ret, copy=True)))
            del self.held[f][:-3]

    def held_ok(self, f):
        return bool(all(np.array_equal(r, c) for r, c in self.held.get(f, [])))

    def fid(self, fr):
        k = id(fr)
        if k not in self.oid:
            self.objs.append(fr)
            self.oid[k] = len(self.objs)
        return self.oid[k]

    @staticmethod
    def est(fr):
        m, s = getattr(fr, "noise_mean", None), getattr(fr, "noise_std", None)
        if m is None or s is None:
            return {"zero": False, "m": "?", "s": "?"}
        return {"zero": bool(m == 0 and s == 0), "m": repr(float(m)), "s": repr(float(s))}

    @staticmethod
    def axes(fr):
        return (np.array(fr.fs, copy=True), np.array(fr.ts, copy=True), tuple(fr.shape), fr.df, fr.dt, fr.fch1, bool(fr.ascending),
                fr.t_start, fr.source_name if hasattr(fr, "source_name") else None)

    @staticmethod
    def axes_same(a, b):
        return bool(np.array_equal(a[0], b[0]) and np.array_equal(a[1], b[1]) and a[2:] == b[2:])

    def pkey(self, filename):
        k = os.path.realpath(str(filename))
        if k not in self.paths:
            self.paths[k] = len(self.paths) + 1
        return self.paths[k]

    @staticmethod
    def rate(fr):
        """The drift rate a frame's own bookkeeping dictionary holds (what `dedrift(frame)` without a rate uses)."""
        md = getattr(fr, "metadata", None)
        if not isinstance(md, dict) or "drift_rate" not in md:
            return "none"
        try:
            return repr(float(md["drift_rate"]))
        except Exception:
            return "other"

    def trace(self, strict=False):
        """strict: every write to a frame's pixels went through a recorded call (true of the drivers, not of arbitrary tests)"""
        return {"h": {"nf": max(1, len(self.objs)), "np": max(1, len(self.paths)), "strict": bool(strict)}, "ev": self.events}


def _args(orig, a, kw):
    """Arguments by parameter name (defaults applied); the call itself is always forwarded as (*a, **kw) unchanged."""
    try:
        b = inspect.signature(orig).bind(*a, **kw)
        b.apply_defaults()
        return dict(b.arguments)
    except TypeError:
        return None


def _reest(data):
    c = sigma_clip(data, sigma=3, maxiters=5, masked=False)
    return float(np.mean(c)), float(np.std(c))


def _grid_ok(fr):
    """C05 on a frame as constructed: frequency axis strictly increasing in memory, uniformly spaced by df from fmin to
    fmax with fch1 at the end its orientation says; time axis i * dt.  Tolerance: 1e-6 channel + 4 ulp of the absolute
    frequency; 1e-9 * dt per row."""
    try:
        fs, ts = np.asarray(fr.fs, dtype=float), np.asarray(fr.ts, dtype=float)
        if len(fs) != fr.fchans or len(ts) != fr.tchans or fr.df <= 0 or fr.dt <= 0:
            return False
        tolf = 1e-6 * fr.df + 4 * np.spacing(max(abs(fs[0]), abs(fs[-1]), 1.0))
        want = fs[0] + fr.df * np.arange(fr.fchans)
        ok = bool(np.all(np.abs(fs - want) <= tolf)) and (len(fs) < 2 or bool(np.all(np.diff(fs) > 0)))
        ok = ok and abs(fr.fch1 - (fs[0] if fr.ascending else fs[-1])) <= tolf
        ok = ok and bool(np.all(np.abs(ts - fr.dt * np.arange(fr.tchans)) <= 1e-9 * fr.dt * max(1, fr.tchans)))
        return bool(ok)
    except Exception:
        return False


def _delta_ok(before, after, ret):
    if not isinstance(ret, np.ndarray) or ret.shape != before.shape or after.shape != before.shape:
        return False
    want = before + ret
    if np.array_equal(after, want) or np.array_equal(after, want.astype(after.dtype)):
        return True
    return False


def copy_event(rec, parent, call, how):
    """One Copy event: `call()` returns what claims to be an equal, independent frame (Frame.copy, copy.deepcopy, a pickle
    round trip).  Also called directly by drivers for the routes that are not Frame methods."""
    p = rec.fid(parent)
    pa, pdata, pest = rec.axes(parent), np.array(parent.data, copy=True), rec.est(parent)
    pmeta = dict(parent.metadata) if isinstance(getattr(parent, "metadata", None), dict) else None
    rec.depth += 1
    try:
        ret, exc = call(), None
    except Exception as e:
        ret, exc = None, e
    finally:
        rec.depth -= 1
    ev = {"e": "Copy", "src": how, "parent": p, "st": "ok" if exc is None else type(exc).__name__, "before": pest, "dig0": _dig(pdata),
          "parent_same": bool(rec.axes_same(pa, rec.axes(parent)) and np.array_equal(pdata, parent.data) and pest == rec.est(parent)),
          "child": 0, "child_est": {"zero": False, "m": "?", "s": "?"}, "child_dig": "?", "child_rate": "none", "own_data": True,
          "eq": {"data": True, "axes": True, "est": True, "meta": True}}
    if exc is None and isinstance(ret, _frame.Frame):
        ev["child"] = rec.fid(ret)
        ev["child_est"], ev["child_dig"], ev["child_rate"] = rec.est(ret), _dig(ret.data), rec.rate(ret)
        ev["own_data"] = bool(ret is not parent and not np.shares_memory(ret.data, parent.data) and not np.shares_memory(ret.fs, parent.fs)
                              and not np.shares_memory(ret.ts, parent.ts) and (pmeta is None or ret.metadata is not parent.metadata))
        ev["eq"] = {"data": bool(np.array_equal(ret.data, pdata) and ret.data.dtype == pdata.dtype),
                    "axes": rec.axes_same(pa, rec.axes(ret)), "est": bool(rec.est(ret) == pest),
                    "meta": bool(pmeta is None or ret.metadata == pmeta)}
    rec.events.append(ev)
    if exc is not None:
        raise exc
    return ret


@contextlib.contextmanager
def recording(rec):
    F = _frame.Frame
    saved = []

    def patch(owner, name, make):
        orig = owner.__dict__[name] if isinstance(owner, type) else getattr(owner, name)
        saved.append((owner, name, orig))
        setattr(owner, name, make(orig))

    def outer(fn):
        """Run fn at depth + 1; returns (ret, exc)."""
        rec.depth += 1
        try:
            return fn(), None
        except Exception as e:
            return None, e
        finally:
            rec.depth -= 1

    def mk_init(orig):
        def __init__(self, *a, **kw):
            if rec.depth > 0:
                return orig(self, *a, **kw)
            ret, exc = outer(lambda: orig(self, *a, **kw))
            if exc is not None:
                raise exc
            w = a[0] if a else kw.get("waterfall")
            how = "waterfall" if w is not None else ("data" if kw.get("data") is not None else "sizes")
            load = None
            if isinstance(w, (str, os.PathLike)) and kw.get("f_start") is None and kw.get("f_stop") is None:
                how = "file"
                load = load_fields(self, str(w))
            k = self.chi2_df
            x = self.df * self.dt
            k_ok = k in (4 * math.floor(x + 0.5), 4 * math.ceil(x - 0.5)) or k == 4 * round(x)
            ev = {"e": "Create", "fid": rec.fid(self), "how": how, "after": rec.est(self), "dig1": _dig(self.data), "rate": rec.rate(self),
                  "path": 1, "gen": 0, "sig": NOSIG, "axes_close": True, "tstart_close": True, "helpers_ok": True, "exact_ok": True}
            if load is not None:
                ev.update(load)
            rec.events.append(ev)
            ev["grid_ok"] = _grid_ok(self)
            ev.update({"data_zero": bool(not np.any(self.data)), "k_ok": bool(k_ok),
                               "axes_ok": bool(len(self.fs) == self.fchans and len(self.ts) == self.tchans and tuple(self.data.shape) == (self.tchans, self.fchans))})
        return __init__

    def load_fields(fr, filename):
        """A frame constructed from a whole file: its exactly comparable signature, the float items compared (to the
        tolerances stated here) with the recorder's snapshot of the frame last saved to that path, and the standalone
        file helpers compared with the loaded frame."""
        from setigen import waterfall_utils as wu
        k = rec.pkey(filename)
        gen, fmt, ax, data, est, meta = rec.snap.get(k, (0, "?", None, None, None, None))
        out = {"path": k, "gen": gen, "sig": _sig(fr, fmt if fmt in ("fil", "h5") else "?")}
        if ax is not None and fmt in ("fil", "h5"):
            fs0, ts0, shape0, df0, dt0, fch10, asc0, t0, src0 = ax
            tolf = 1e-6 * abs(df0) + 4 * np.spacing(max(abs(fch10), 1.0))
            out["axes_close"] = bool(len(fr.fs) == len(fs0) and len(fr.ts) == len(ts0)
                                     and np.allclose(fr.fs, fs0, rtol=0, atol=tolf) and np.allclose(fr.ts, ts0, rtol=0, atol=1e-9 * dt0 * max(1, len(ts0)))
                                     and _close(fr.df, df0, 1e-9) and _close(fr.dt, dt0, 1e-9) and abs(fr.fch1 - fch10) <= tolf)
            out["tstart_close"] = bool(abs(fr.t_start - t0) <= 1e-4)
        try:
            rec.depth += 1
            try:
                hfs, hts, hdat = np.asarray(wu.get_fs(filename)) * 1e6, wu.get_ts(filename), wu.get_data(filename)      # header units are MHz
                lo, hi = wu.min_freq(filename) * 1e6, wu.max_freq(filename) * 1e6
            finally:
                rec.depth -= 1
            tolf = 1e-6 * fr.df + 4 * np.spacing(max(abs(fr.fch1), 1.0))
            # the helpers report the file's own order (fch1 first); the frame holds ascending-index order
            ffs = fr.fs if fr.ascending else fr.fs[::-1]
            out["helpers_ok"] = bool(len(hfs) == fr.fchans and len(hts) == fr.tchans and tuple(np.shape(hdat)) == (fr.tchans, fr.fchans)
                                     and np.allclose(np.sort(hfs), np.sort(ffs), rtol=0, atol=tolf)
                                     and np.allclose(hts, fr.ts, rtol=0, atol=1e-9 * fr.dt * max(1, fr.tchans))
                                     and abs(lo - float(np.min(fr.fs))) <= tolf and abs(hi - float(np.max(fr.fs))) <= tolf)
        except Exception as e:       # a helper that cannot read a file the constructor read
            out["helpers_ok"] = False
            out["helpers_err"] = "%s: %s" % (type(e).__name__, e)
        return out

    def noise_event(self, name, kind, params, call):
        f = rec.fid(self)
        before_est, before_axes = rec.est(self), rec.axes(self)
        before = np.array(self.data, copy=True)
        ret, exc = outer(call)
        after = np.asarray(self.data)
        ev = {"e": "Noise", "src": name, "fid": f, "kind": kind, "before": before_est, "after": rec.est(self),
              "dig0": _dig(before), "dig1": _dig(after),
              "st": "ok" if exc is None else type(exc).__name__,
              "axes_same": rec.axes_same(before_axes, rec.axes(self)),
              "data_same": bool(after.shape == before.shape and np.array_equal(after, before))}
        ev["held_ok"] = rec.held_ok(f)
        if exc is None:
            rec.hold(f, ret)
            ev["delta_ok"] = _delta_ok(before, after, ret)
            rm, rs = _reest(after)
            ev["is_reest"] = bool(_close(self.noise_mean, rm) and _close(self.noise_std, rs))
            k = self.chi2_df
            m, s = float(self.noise_mean), float(self.noise_std)
            if params is not None:
                pm, ps = params
                if kind == "chi2":
                    ev["is_param"] = bool(_close(m, pm) and _close(s, math.sqrt(2.0 * k) * pm / k, 1e-10))
                else:
                    ev["is_param"] = bool(_close(m, pm) and _close(s, ps))
            else:
                # parameters drawn from tables inside the call: the estimate must be the drawn parameters, which for
                # chi-squared noise obey std = sqrt(2 k) mean / k; for gaussian noise: anything but the re-estimate
                if kind == "chi2":
                    ev["is_param"] = bool(_close(s, math.sqrt(2.0 * k) * m / k, 1e-10))
                else:
                    ev["is_param"] = not ev["is_reest"]
        else:
            ev.update({"delta_ok": False, "is_reest": False, "is_param": False})
        rec.events.append(ev)
        if exc is not None:
            raise exc
        return ret

    def mk_add_noise(orig):
        def add_noise(self, *a, **kw):
            g = _args(orig, (self,) + a, kw)
            if rec.depth > 0 or g is None:
                return orig(self, *a, **kw)
            x_mean, x_std, x_min, noise_type = g.get("x_mean"), g.get("x_std"), g.get("x_min"), g.get("noise_type", "chi2")
            kind = "chi2" if str(noise_type) == "chi2" else ("truncated" if x_min is not None else "gaussian")
            try:
                pm = float(unit_utils.get_value(x_mean, None)) if not hasattr(x_mean, "unit") else float(x_mean.value)
                ps = None if x_std is None else float(x_std)
                params = (pm, ps if ps is not None else 0.0)
            except Exception:
                params = None
            return noise_event(self, "add_noise", kind, params, lambda: orig(self, *a, **kw))
        return add_noise

    def mk_add_noise_from_obs(orig):
        def add_noise_from_obs(self, *a, **kw):
            if rec.depth > 0:
                return orig(self, *a, **kw)
            g = _args(orig, (self,) + a, kw) or {}
            nt = g.get("noise_type", "chi2")
            has_min = g.get("x_min_array") is not None
            kind = "chi2" if str(nt) == "chi2" else ("truncated" if has_min else "gaussian")
            return noise_event(self, "add_noise_from_obs", kind, None, lambda: orig(self, *a, **kw))
        return add_noise_from_obs

    def mk_zero(orig):
        def zero_data(self, *a, **kw):
            if rec.depth > 0:
                return orig(self, *a, **kw)
            d0 = _dig(self.data)
            ret, exc = outer(lambda: orig(self, *a, **kw))
            rec.events.append({"e": "ZeroData", "fid": rec.fid(self), "after": rec.est(self), "dig0": d0, "dig1": _dig(self.data), "data_zero": bool(not np.any(self.data)),
                               "shape_ok": bool(tuple(self.data.shape) == tuple(self.shape)), "st": "ok" if exc is None else type(exc).__name__})
            if exc is not None:
                raise exc
            return ret
        return zero_data

    def mk_signal(name):
        def make(orig):
            def inject(self, *a, **kw):
                if rec.depth > 0:
                    return orig(self, *a, **kw)
                f = rec.fid(self)
                before_est, before_axes = rec.est(self), rec.axes(self)
                before = np.array(self.data, copy=True)
                meta = dict(self.metadata) if isinstance(getattr(self, "metadata", None), dict) else None
                ret, exc = outer(lambda: orig(self, *a, **kw))
                after = np.asarray(self.data)
                ev = {"e": "Signal", "src": name, "fid": f, "before": before_est, "after": rec.est(self),
                      "dig0": _dig(before), "dig1": _dig(after),
                      "st": "ok" if exc is None else type(exc).__name__,
                      "axes_same": rec.axes_same(before_axes, rec.axes(self)),
                      "meta_same": bool(meta is None or meta == self.metadata),
                      "data_same": bool(after.shape == before.shape and np.array_equal(after, before)),
                      "delta_ok": bool(exc is None and _delta_ok(before, after, ret)),
                      "held_ok": rec.held_ok(f)}
                if exc is None:
                    rec.hold(f, ret)
                rec.events.append(ev)
                if exc is not None:
                    raise exc
                return ret
            return inject
        return make

    def mk_snr(name):
        def make(orig):
            def q(self, *a, **kw):
                g = _args(orig, (self,) + a, kw)
                if rec.depth > 0 or g is None:
                    return orig(self, *a, **kw)
                x = [v for k, v in g.items() if k != "self"][0]
                before = rec.est(self)
                d0 = _dig(self.data)
                std, T = float(self.noise_std), int(self.tchans)
                # estimates of float32 data are float32 numbers: the relation holds to that precision
                rel = 1e-10 if not isinstance(self.noise_std, np.floating) or np.finfo(type(self.noise_std)).bits >= 64 else 8 * float(np.finfo(type(self.noise_std)).eps)
                ret, exc = outer(lambda: orig(self, *a, **kw))
                ok = False
                if exc is None:
                    try:
                        xv, rv = float(x), float(ret)
                        want = xv * std / math.sqrt(T) if name == "get_intensity" else xv * math.sqrt(T) / std
                        # a frame whose estimate is not a number (the sigma-clipped estimator on data whose squares underflow,
                        # e.g. a slice through the far tail of a Gaussian profile) has no SNR scale: not judged
                        ok = _close(rv, want, rel) or not math.isfinite(std) or not math.isfinite(want)
                    except Exception:
                        ok = True            # array-valued or unit-carrying argument: not projected
                rec.events.append({"e": "Snr", "src": name, "fid": rec.fid(self), "before": before, "after": rec.est(self),
                                   "dig0": d0, "dig1": _dig(self.data),
                                   "std_zero": bool(std == 0), "st": "ok" if exc is None else type(exc).__name__, "value_ok": bool(ok)})
                if exc is not None:
                    raise exc
                return ret
            return q
        return make

    def derive_event(name, parent, call, axis=None, from_meta=False):
        p = rec.fid(parent)
        rate_seen = rec.rate(parent)
        pa = rec.axes(parent)
        pdata = np.array(parent.data, copy=True)
        pest = rec.est(parent)
        ret, exc = outer(call)
        ev = {"e": "Derive", "src": name, "parent": p, "st": "ok" if exc is None else type(exc).__name__,
              "dig0": _dig(pdata), "child_dig": "?", "before": pest, "from_meta": bool(from_meta), "rate_seen": rate_seen, "child_rate": "none",
              "parent_same": bool(rec.axes_same(pa, rec.axes(parent)) and np.array_equal(pdata, parent.data) and pest == rec.est(parent)),
              "child": 0, "keeps": {"asc": True, "df": True, "dt": True, "t_start": True, "source": True, "rows": True}, "own_data": True,
              "child_est": {"zero": False, "m": "?", "s": "?"}}
        if exc is None and isinstance(ret, F):
            ev["child"] = rec.fid(ret)
            df_ok = _close(ret.df, parent.df * (parent.fchans if axis == "f" else 1))
            dt_ok = _close(ret.dt, parent.dt * (parent.tchans if axis == "t" else 1))
            ev["keeps"] = {"asc": bool(ret.ascending) == bool(parent.ascending), "df": bool(df_ok), "dt": bool(dt_ok),
                           "t_start": bool(ret.t_start == parent.t_start), "source": bool(ret.source_name == parent.source_name),
                           "rows": bool(ret.tchans == (1 if axis == "t" else parent.tchans))}
            ev["own_data"] = bool(not np.shares_memory(ret.data, parent.data))
            ev["child_est"] = rec.est(ret)
            ev["child_dig"] = _dig(ret.data)
            ev["child_rate"] = rec.rate(ret)
        rec.events.append(ev)
        if exc is not None:
            raise exc
        return ret

    def mk_slice(orig):
        def get_slice(*a, **kw):
            g = _args(orig, a, kw)
            if rec.depth > 0 or g is None or not isinstance(g.get("fr"), F):
                return orig(*a, **kw)
            return derive_event("get_slice", g["fr"], lambda: orig(*a, **kw))
        return get_slice

    def mk_dedrift(orig):
        def dedrift(*a, **kw):
            g = _args(orig, a, kw)
            if rec.depth > 0 or g is None or not isinstance(g.get("fr"), F):
                return orig(*a, **kw)
            return derive_event("dedrift", g["fr"], lambda: orig(*a, **kw), from_meta=g.get("drift_rate") is None)
        return dedrift

    def mk_integrate(orig):
        def integrate(*a, **kw):
            g = _args(orig, a, kw)
            if rec.depth > 0 or g is None or not isinstance(g.get("fr"), F) or not g.get("as_frame"):
                return orig(*a, **kw)
            ax = "f" if g.get("axis") in ("f", 1) else "t"
            return derive_event("integrate", g["fr"], lambda: orig(*a, **kw), axis=ax)
        return integrate

    def mk_save(fmt):
        def make(orig):
            def save(self, filename, *a, **kw):
                if rec.depth > 0:
                    return orig(self, filename, *a, **kw)
                f = rec.fid(self)
                est0, ax0, d0 = rec.est(self), rec.axes(self), _dig(self.data)
                d32 = _dig(np.asarray(self.data).astype(np.float32))
                meta = dict(self.metadata) if isinstance(getattr(self, "metadata", None), dict) else None
                ret, exc = outer(lambda: orig(self, filename, *a, **kw))
                k = rec.pkey(filename if fmt != "npy" or str(filename).endswith(".npy") else str(filename) + ".npy")
                gen = rec.snap.get(k, (0,))[0] + 1
                ok = exc is None
                rec.snap[k] = (gen, fmt if ok else "?", rec.axes(self), np.array(self.data, copy=True), rec.est(self), meta)
                rec.events.append({"e": "Save", "src": "save_" + fmt, "fid": f, "fmt": fmt, "path": k, "gen": gen,
                                   "st": "ok" if ok else type(exc).__name__, "before": est0, "after": rec.est(self),
                                   "dig0": d0, "dig1": _dig(self.data), "axes_same": rec.axes_same(ax0, rec.axes(self)),
                                   "pix32_same": bool(d32 == _dig(np.asarray(self.data).astype(np.float32))),
                                   "meta_same": bool(meta is None or meta == self.metadata),
                                   "sig": _sig(self, fmt) if ok and fmt in ("fil", "h5", "pickle") else NOSIG})
                if exc is not None:
                    raise exc
                return ret
            return save
        return make

    def mk_load_pickle(orig):
        def load_pickle(cls, filename):
            if rec.depth > 0:
                return orig.__func__(cls, filename)
            ret, exc = outer(lambda: orig.__func__(cls, filename))
            if exc is not None:
                raise exc
            k = rec.pkey(filename)
            gen, fmt, ax, data, est, meta = rec.snap.get(k, (0, "?", None, None, None, None))
            ev = {"e": "Create", "fid": rec.fid(ret), "how": "pickle", "after": rec.est(ret), "dig1": _dig(ret.data), "path": k, "gen": gen, "rate": rec.rate(ret),
                  "sig": _sig(ret, fmt if fmt == "pickle" else "?"), "axes_close": True, "tstart_close": True, "helpers_ok": True,
                  "exact_ok": True, "data_zero": bool(not np.any(ret.data)), "k_ok": True, "axes_ok": True, "grid_ok": True}
            if fmt == "pickle":
                ev["exact_ok"] = bool(rec.axes_same(ax, rec.axes(ret)) and np.array_equal(data, ret.data) and data.dtype == ret.data.dtype
                                      and est == rec.est(ret) and (meta is None or meta == ret.metadata))
            rec.events.append(ev)
            return ret
        return classmethod(load_pickle)

    def mk_meta(name):
        def make(orig):
            def meta(self, *a, **kw):
                if rec.depth > 0:
                    return orig(self, *a, **kw)
                ret, exc = outer(lambda: orig(self, *a, **kw))
                rec.events.append({"e": "Meta", "src": name, "fid": rec.fid(self), "st": "ok" if exc is None else type(exc).__name__,
                                   "rate": rec.rate(self)})
                if exc is not None:
                    raise exc
                return ret
            return meta
        return make

    def mk_info(name):
        """Read-only accessors: what they report must be the frame's current state (the specification compares it with
        the state the frame's own recorded calls left)."""
        def make(orig):
            def info(self, *a, **kw):
                if rec.depth > 0:
                    return orig(self, *a, **kw)
                before, d0, ax0 = rec.est(self), _dig(self.data), rec.axes(self)
                ret, exc = outer(lambda: orig(self, *a, **kw))
                ev = {"e": "Info", "src": name, "fid": rec.fid(self), "st": "ok" if exc is None else type(exc).__name__,
                      "before": before, "after": rec.est(self), "dig0": d0, "dig1": _dig(self.data),
                      "axes_same": rec.axes_same(ax0, rec.axes(self)), "reported": {"zero": False, "m": "?", "s": "?"},
                      "rate": rec.rate(self), "value_ok": True}
                if exc is None:
                    try:
                        if name == "get_noise_stats":
                            m, s_ = float(ret[0]), float(ret[1])
                            ev["reported"] = {"zero": bool(m == 0 and s_ == 0), "m": repr(m), "s": repr(s_)}
                        elif name == "get_total_stats":
                            ev["value_ok"] = bool(_close(ret[0], np.mean(self.data), 1e-9) and _close(ret[1], np.std(self.data), 1e-9))
                        elif name == "get_params":
                            ev["value_ok"] = bool(ret == {"fchans": self.fchans, "tchans": self.tchans, "df": self.df, "dt": self.dt,
                                                          "fch1": self.fch1, "ascending": self.ascending}
                                                  and tuple(self.data.shape) == (ret["tchans"], ret["fchans"]))
                        elif name == "get_metadata":
                            ev["value_ok"] = bool(ret is self.metadata or ret == self.metadata)
                    except Exception:
                        ev["value_ok"] = False
                rec.events.append(ev)
                if exc is not None:
                    raise exc
                return ret
            return info
        return make

    def mk_copy(orig):
        def copy(self):
            if rec.depth > 0:
                return orig(self)
            return copy_event(rec, self, lambda: orig(self), "copy")
        return copy

    import sys
    # the package re-exports the functions under the names of their modules: go through sys.modules
    m_slice, m_dedrift, m_int = sys.modules["setigen.slice"], sys.modules["setigen.dedrift"], sys.modules["setigen.integrate"]
    try:
        patch(F, "__init__", mk_init)
        patch(F, "add_noise", mk_add_noise)
        patch(F, "add_noise_from_obs", mk_add_noise_from_obs)
        patch(F, "zero_data", mk_zero)
        patch(F, "add_signal", mk_signal("add_signal"))
        patch(F, "add_constant_signal", mk_signal("add_constant_signal"))
        patch(F, "save_fil", mk_save("fil"))
        patch(F, "save_hdf5", mk_save("h5"))
        patch(F, "save_pickle", mk_save("pickle"))
        patch(F, "save_npy", mk_save("npy"))
        patch(F, "load_pickle", mk_load_pickle)
        patch(F, "copy", mk_copy)
        for nm in ("get_noise_stats", "get_total_stats", "get_params", "get_metadata"):
            patch(F, nm, mk_info(nm))
        patch(F, "add_metadata", mk_meta("add_metadata"))
        patch(F, "update_metadata", mk_meta("update_metadata"))
        patch(F, "get_intensity", mk_snr("get_intensity"))
        patch(F, "get_snr", mk_snr("get_snr"))
        patch(m_slice, "get_slice", mk_slice)
        patch(m_dedrift, "dedrift", mk_dedrift)
        patch(m_int, "integrate", mk_integrate)
        # the names re-exported by the package and used by Frame.get_slice / spectrum() / timeseries()
        for mod, name, src in ((stg, "get_slice", m_slice), (stg, "dedrift", m_dedrift), (stg, "integrate", m_int)):
            if hasattr(mod, name):
                saved.append((mod, name, getattr(mod, name)))
                setattr(mod, name, getattr(src, name))
        yield rec
    finally:
        for owner, name, orig in reversed(saved):
            setattr(owner, name, orig)
