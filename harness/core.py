"""Check context: scratch directory, counters for the evidence file, violation and
known-finding handling, exit codes (0 held / 1 violation / 2 machinery failure)."""
import hashlib
import json
import os
import shutil
import sys
import time
import traceback

VERIF = os.path.dirname(os.path.dirname(os.path.abspath(__file__)))
OUT = os.path.join(VERIF, "out")
EVIDENCE = os.path.join(VERIF, "evidence")
KNOWN = os.path.join(VERIF, "known_findings.json")


class MachineryFailure(RuntimeError):
    pass


def _jsonable(x):
    try:
        import numpy as np
        if isinstance(x, np.ndarray):
            return x.tolist()
        if isinstance(x, (np.integer,)):
            return int(x)
        if isinstance(x, (np.floating,)):
            return float(x)
        if isinstance(x, (np.bool_,)):
            return bool(x)
        if isinstance(x, complex):
            return [x.real, x.imag]
    except ImportError:
        pass
    if isinstance(x, (set, frozenset)):
        return sorted(_jsonable(v) for v in x)
    if isinstance(x, bytes):
        return x.hex()
    return repr(x)


def _cmp(a, op, b):
    if op == "==":
        return a == b
    if op == "!=":
        return a != b
    if op == "<":
        return a < b
    if op == "<=":
        return a <= b
    if op == ">":
        return a > b
    if op == ">=":
        return a >= b
    if op == "in":
        return a in b
    if op == "notin":
        return a not in b
    raise MachineryFailure("bad operator in known_findings: %r" % op)


class Ctx(object):
    def __init__(self, pid, tier, seed, keep_replays=False):
        self.pid = pid
        self.tier = tier
        self.seed = seed
        self.t0 = time.time()
        self.outdir = os.path.join(OUT, "%s-%d" % (pid, os.getpid()))
        os.makedirs(self.outdir, exist_ok=True)
        os.makedirs(os.path.join(OUT, "replays"), exist_ok=True)
        os.makedirs(EVIDENCE, exist_ok=True)
        for fn in ([] if keep_replays else os.listdir(os.path.join(OUT, "replays"))):
            if fn.startswith(pid + "-"):
                os.remove(os.path.join(OUT, "replays", fn))
        self.states = 0
        self.transitions = 0
        self.traces = 0            # behaviours replayed into / traces recorded from the implementation
        self.steps = 0             # individual implementation steps compared
        self.evaluations = 0
        self.samples = []
        self.assumptions = []
        self.notes = {}
        self.tlc_runs = []
        self.violations = []       # unlisted violations
        self.known_hits = {}       # finding id -> count
        self.nontrivial = set()
        self.exhaustive = None
        try:
            self.known = json.load(open(KNOWN))["findings"]
        except (IOError, OSError):
            self.known = []

    # ---- bookkeeping -------------------------------------------------
    def quick(self):
        return self.tier == "quick"

    def pick(self, quick, thorough):
        return quick if self.tier == "quick" else thorough

    def add_tlc(self, res, label, role):
        self.states += res.distinct
        self.transitions += res.generated
        self.tlc_runs.append({"label": label, "role": role, "distinct_states": res.distinct,
                              "states_generated": res.generated, "depth": res.depth,
                              "wall_s": round(res.wall, 2),
                              "coverage": {k: list(v) for k, v in sorted(res.coverage.items())}})

    def sample(self, obj, limit=6):
        if len(self.samples) < limit:
            self.samples.append(obj)

    def mark(self, key):
        """Record one distinct non-trivial case (hashable key)."""
        self.nontrivial.add(key)

    def assume(self, text):
        if text not in self.assumptions:
            self.assumptions.append(text)

    # ---- violations --------------------------------------------------
    def _match_known(self, module, kind, args):
        for f in self.known:
            if f.get("status") != "known" or f.get("property") != self.pid:
                continue
            m = f.get("match", {})
            if m.get("module") not in (None, module):
                continue
            if m.get("kind") not in (None, kind):
                continue
            ok = True
            for field, op, lit in m.get("where", []):
                if field not in args or not _cmp(args[field], op, lit):
                    ok = False
                    break
            if ok:
                return f
        return None

    def violation(self, module, kind, args, detail):
        """Report a divergence between the specification and the implementation
        (or a TLC invariant violation).  `args` are the abstract arguments that
        known-finding predicates range over; `detail` goes into the replay file."""
        f = self._match_known(module, kind, args)
        if f is not None:
            self.known_hits[f["id"]] = self.known_hits.get(f["id"], 0) + 1
            return False
        rec = {"property": self.pid, "module": module, "kind": kind, "args": args,
               "detail": detail, "seed": self.seed, "tier": self.tier}
        blob = json.dumps(rec, sort_keys=True, default=_jsonable)
        h = hashlib.sha1(blob.encode()).hexdigest()[:12]
        path = os.path.join(OUT, "replays", "%s-%s.json" % (self.pid, h))
        if len(self.violations) < 20:
            with open(path, "w") as fh:
                fh.write(json.dumps(rec, indent=1, sort_keys=True, default=_jsonable))
        self.violations.append({"module": module, "kind": kind, "args": args, "replay": path})
        return True

    def tlc_violation(self, res, module, label):
        for kind, name in res.violations:
            self.violation(module, "tlc:%s:%s" % (kind, name), {"config": label},
                           {"tlc_cmd": res.cmd, "counterexample": res.trace_text})

    # ---- finish --------------------------------------------------------
    def finish(self, level="model_checking"):
        wall = time.time() - self.t0
        cov = {
            "states": self.states,
            "transitions": self.transitions,
            "traces_validated_against_impl": self.traces,
            "implementation_steps_compared": self.steps,
            "samples": self.samples or ["(none)"],
            "evaluations": max(self.evaluations, self.traces, 1),
            "distinct_nontrivial": len(self.nontrivial),
            "rule": self.notes.get("rule", ""),
            "tlc_runs": self.tlc_runs,
            "known_findings_hit": self.known_hits,
        }
        if self.exhaustive is not None:
            cov["exhaustive"] = bool(self.exhaustive)
        for k, v in self.notes.items():
            if k != "rule":
                cov[k] = v
        ev = {"property_id": self.pid, "tier": self.tier, "seed": self.seed, "level": level,
              "coverage": cov, "assumptions": self.assumptions, "wall_s": round(wall, 2),
              "violations": len(self.violations)}
        evdir = EVIDENCE if self.pid.startswith("C") else os.path.join(VERIF, "evidence_extra")
        os.makedirs(evdir, exist_ok=True)
        with open(os.path.join(evdir, "%s.json" % self.pid), "w") as fh:
            fh.write(json.dumps(ev, indent=1, default=_jsonable))
        for fid, n in sorted(self.known_hits.items()):
            what = [f["what"] for f in self.known if f["id"] == fid][0]
            print("KNOWN-FINDING: property=%s %s [%s; hit %d times]" % (self.pid, what, fid, n))
        import collections
        with open(os.path.join(OUT, "violations-%s.json" % self.pid), "w") as fh:
            json.dump([{"module": v["module"], "kind": v["kind"], "args": v["args"]} for v in self.violations], fh, default=_jsonable)
        kinds = collections.Counter((v["module"], v["kind"]) for v in self.violations)
        for (m, k), n in kinds.most_common(12):
            print("  violation-class module=%s kind=%s count=%d" % (m, k, n))
        seen = set()
        for v in self.violations:
            if v["replay"] in seen:
                continue
            seen.add(v["replay"])
            print("VIOLATION property=%s replay=%s" % (self.pid, v["replay"]))
            print("  module=%s kind=%s args=%s" % (v["module"], v["kind"], json.dumps(v["args"], default=_jsonable)[:300]))
            if len(seen) >= 20:
                break
        shutil.rmtree(self.outdir, ignore_errors=True)
        print("%s tier=%s seed=%d states=%d transitions=%d impl_traces=%d steps=%d violations=%d wall=%.1fs" % (
            self.pid, self.tier, self.seed, self.states, self.transitions, self.traces, self.steps,
            len(self.violations), wall))
        return 1 if self.violations else 0


def main_wrapper(fn, pid, tier, seed):
    ctx = Ctx(pid, tier, seed)
    try:
        fn(ctx)
        rc = ctx.finish()
    except Exception as e:
        traceback.print_exc()
        # an exception raised INSIDE the implementation (innermost frame under the repository being checked) at a point
        # where the check expected none is a divergence of the code, not of the machinery: report it as a violation.
        # Anything raised by the harness itself stays a machinery failure: never a pass, never a violation.
        repo = os.path.realpath(os.environ.get("VERIF_REPO", "/repo"))
        tb = traceback.extract_tb(e.__traceback__)
        inner = os.path.realpath(tb[-1].filename) if tb else ""
        if inner.startswith(os.path.join(repo, "setigen") + os.sep) and not isinstance(e, (RuntimeError, MemoryError)):
            ctx.violation("implementation", "unexpected_exception:%s" % type(e).__name__,
                          {"action": "unexpected exception", "where": "%s:%s" % (os.path.relpath(inner, repo), tb[-1].name)},
                          {"exception": "%s: %s" % (type(e).__name__, str(e)[:500]),
                           "traceback": ["%s:%d %s" % (f.filename, f.lineno, f.name) for f in tb[-6:]]})
            try:
                rc = ctx.finish()
            except Exception:
                rc = 1
            sys.stdout.flush()
            return rc
        print("MACHINERY-FAILURE property=%s: %s" % (pid, str(e)[:2000]))
        shutil.rmtree(ctx.outdir, ignore_errors=True)
        rc = 2
    sys.stdout.flush()
    return rc
