"""Adapter binding Accounting.tla to RawVoltageBackend and the stand-alone helpers (C20)."""
import os
from fractions import Fraction

import numpy as np

import setigen as stg
from setigen.voltage import antenna as v_antenna
from setigen.voltage import backend as v_backend
from setigen.voltage import level_utils
from setigen.voltage import polyphase_filterbank as v_pfb
from setigen.voltage import quantization as v_q

from .. import guppi


class Div(Exception):
    def __init__(self, field, expected, observed):
        Exception.__init__(self, field)
        self.field, self.expected, self.observed = field, expected, observed


def make_backend(c, rate, block_size, ascending=True, nant=None):
    nant = c["nant"] if nant is None else nant
    kw = dict(sample_rate=rate, fch1=0, ascending=ascending, num_pols=c["pols"], seed=5)
    if nant == 1:
        src = v_antenna.Antenna(**kw)
        streams = src.streams
    else:
        src = v_antenna.MultiAntennaArray(num_antennas=nant, delays=[0] * nant, **kw)
        streams = [s for a in src.antennas for s in a.streams]
    for s in streams:
        s.add_noise(0, 1)
    be = v_backend.RawVoltageBackend(
        src, digitizer=v_q.RealQuantizer(target_fwhm=32, num_bits=8),
        filterbank=v_pfb.PolyphaseFilterbank(num_taps=c["taps"], num_branches=c["B"]),
        requantizer=v_q.ComplexQuantizer(target_fwhm=32 if c["bits"] == 8 else 5, num_bits=c["bits"]),
        start_chan=0, num_chans=c["nch"], block_size=block_size, blocks_per_file=2, num_subblocks=2)
    return src, be


def check(out, scale, workdir, record_ok):
    """out: record emitted by Accounting_Gen; scale: sample-rate multiplier (1 or 16).  Raises Div."""
    c = out["cfg"]
    rate = float(c["rate"] * scale)
    tpb = Fraction(out["tpb"][0], out["tpb"][1] * scale)
    asc = (c["B"] + c["taps"]) % 2 == 0
    src, be = make_backend(c, rate, out["blockSize"], ascending=asc)
    if be.samples_per_block != out["spb"]:
        raise Div("samples_per_block", out["spb"], be.samples_per_block)
    if abs(Fraction(be.time_per_block) - tpb) > tpb * Fraction(1, 10 ** 14):
        raise Div("time_per_block", float(tpb), be.time_per_block)
    helper_kw = dict(num_antennas=c["nant"], sample_rate=rate, block_size=out["blockSize"], num_bits=c["bits"],
                     num_pols=c["pols"], num_branches=c["B"], num_chans=c["nch"])
    for d in out["durations"].values() if isinstance(out["durations"], dict) else out["durations"]:
        k, rn, rd, allowed = d["k"], d["rn"], d["rd"], d["blocks"]
        dur = float((k + Fraction(rn, rd)) * tpb)
        n = be.get_num_blocks(dur)
        if n not in allowed:
            raise Div("get_num_blocks", {"duration_in_blocks": "%d+%d/%d" % (k, rn, rd), "allowed": allowed}, n)
        h = v_backend.get_total_obs_num_samples(obs_length=dur, length_mode="obs_length", **helper_kw)
        if h not in [a * out["spb"] * c["B"] for a in allowed]:
            raise Div("get_total_obs_num_samples(obs_length)", [a * out["spb"] * c["B"] for a in allowed], h)
        if rn == 0:
            for eps in (1e-12, -1e-12):
                n2 = be.get_num_blocks(dur * (1 + eps))
                if n2 not in (k, k - 1):
                    raise Div("get_num_blocks(boundary)", [k, k - 1], n2)
    h = v_backend.get_total_obs_num_samples(num_blocks=c["blocks"], length_mode="num_blocks", **helper_kw)
    if h != out["total"]:
        raise Div("get_total_obs_num_samples(num_blocks)", out["total"], h)
    # block size for a desired number of fine spectra
    fine = out["fine"]
    for key, f in (fine.items() if isinstance(fine, dict) else enumerate(fine)):
        pass
    return src, be, tpb, rate


def check_fine(out, scale):
    c = out["cfg"]
    rate = float(c["rate"] * scale)
    cases = [(2, 4, 1), (1, 8, 3), (4, 2, 2)]
    fine = out["fine"]
    vals = list(fine.values()) if isinstance(fine, dict) else list(fine)
    # ToJson of a function over tuples: keys are the TLA+ text of the tuple; match by spb
    for (tch, fl, intf) in cases:
        want = [f for f in vals if f["spb"] == tch * fl * intf]
        if not want:
            raise RuntimeError("fine case missing in spec output")
        want = want[0]
        bs = v_backend.get_block_size(num_antennas=c["nant"], tchans_per_block=tch, num_bits=c["bits"], num_pols=c["pols"],
                                      num_branches=c["B"], num_chans=c["nch"], fftlength=fl, int_factor=intf)
        if bs != want["blockSize"]:
            raise Div("get_block_size", want["blockSize"], bs)
        if want["spb"] % c["taps"] == 0:
            _, be = make_backend(c, rate, bs)
            if be.samples_per_block != want["spb"]:
                raise Div("get_block_size->samples_per_block", want["spb"], be.samples_per_block)
            # unit drift rate and frame parameters from the same backend parameters
            u = level_utils.get_unit_drift_rate(be, fl, intf)
            df = Fraction(rate) / c["B"] / fl
            dt = Fraction(c["B"]) / Fraction(rate) * fl * intf
            if abs(abs(u) - float(df / dt)) > 1e-12 * float(df / dt):
                raise Div("get_unit_drift_rate", float(df / dt), u)
            obs = float(dt * (3 + Fraction(1, 3)))
            p = stg.frame.params_from_backend(obs_length=obs, sample_rate=rate, num_branches=c["B"], fftlength=fl, int_factor=intf)
            if p["tchans"] != 3 or abs(p["df"] - float(df)) > 1e-12 * float(df) or abs(p["dt"] - float(dt)) > 1e-12 * float(dt):
                raise Div("params_from_backend", {"tchans": 3, "df": float(df), "dt": float(dt)}, p)
            fr = stg.Frame.from_backend_params(fchans=8, obs_length=obs, sample_rate=rate, num_branches=c["B"], fftlength=fl,
                                               int_factor=intf, fch1=6e9, ascending=False)
            if fr.tchans != 3 or abs(fr.unit_drift_rate - abs(u)) > 1e-12 * abs(u):
                raise Div("from_backend_params", {"tchans": 3, "unit_drift_rate": abs(u)},
                          {"tchans": fr.tchans, "unit_drift_rate": fr.unit_drift_rate})


def check_recording(out, scale, workdir):
    """Small configurations only: record by duration and compare attributes, file contents and the antenna clock."""
    c = out["cfg"]
    rate = float(c["rate"] * scale)
    tpb = Fraction(out["tpb"][0], out["tpb"][1] * scale)
    src, be = make_backend(c, rate, out["blockSize"])
    dur = float((c["blocks"] + Fraction(1, 2)) * tpb)
    stem = os.path.join(workdir, "acc")
    t_before = src.t_start
    be.record(stem, obs_length=dur, length_mode="obs_length", load_template=False, verbose=False, header_dict={})
    try:
        if be.num_blocks != c["blocks"]:
            raise Div("record(obs_length).num_blocks", c["blocks"], be.num_blocks)
        if be.total_obs_num_samples != out["total"]:
            raise Div("total_obs_num_samples", out["total"], be.total_obs_num_samples)
        want_len = float(Fraction(out["obsLength"][0], out["obsLength"][1] * scale))
        if abs(be.obs_length - want_len) > 1e-13 * want_len:
            raise Div("obs_length", want_len, be.obs_length)
        ticks = (src.t_start - t_before) * rate
        if abs(ticks - out["drawn"]) > 1e-6 * out["drawn"]:
            raise Div("clock_advance_samples", out["drawn"], ticks)
        nblocks = 0
        for fn in sorted(os.listdir(workdir)):
            for blk in guppi.parse_file(os.path.join(workdir, fn)):
                nblocks += 1
                h = blk["hdr"]
                if h.get("PKTSTOP") != out["pktstop"]:
                    raise Div("PKTSTOP", out["pktstop"], h.get("PKTSTOP"))
                if abs(float(h.get("SCANLEN")) - want_len) > 1e-12 * want_len:
                    raise Div("SCANLEN", want_len, h.get("SCANLEN"))
        if nblocks != c["blocks"]:
            raise Div("blocks_on_disk", c["blocks"], nblocks)
    finally:
        for fn in os.listdir(workdir):
            os.remove(os.path.join(workdir, fn))
