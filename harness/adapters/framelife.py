"""Adapter binding FrameLife.tla to setigen frames, slice / dedrift / integrate, .fil / .h5 I/O (C03, C17).
Independent reader: blimpy.Waterfall on the written file (header + data in file order)."""
import os

import numpy as np
from astropy.time import Time
from blimpy import Waterfall

import setigen as stg
from setigen import waterfall_utils

GEOMS = {
    "unit": dict(df=1.0, dt=1.0, f0=1.0e6),
    "bl_hires": dict(df=2.7939677238464355, dt=18.253611008, f0=6095211984.124035),
    "mhz": dict(df=2929687.5, dt=0.5, f0=1.0e9),
}
T0 = 1600000000.0          # unix start time of every synthetic frame (model value 7)


class Div(Exception):
    def __init__(self, cls, field, expected, observed):
        Exception.__init__(self, field)
        self.cls, self.field, self.expected, self.observed = cls, field, expected, observed


def create(act, gname, src="SRC1"):
    g = GEOMS[gname]
    F, T, asc, lo = act["F"], act["T"], act["asc"], act["lo"]
    fmin = g["f0"] + lo * g["df"]
    fch1 = fmin if asc else fmin + (F - 1) * g["df"]
    data = np.array([[1000.0 * (i + 1) + lo + j for j in range(F)] for i in range(T)])
    if act["route"] == "sizes":
        fr = stg.Frame(fchans=F, tchans=T, df=g["df"], dt=g["dt"], fch1=fch1, ascending=asc, t_start=T0, source_name=src, seed=1)
        fr.data = data
    else:
        fr = stg.Frame.from_data(g["df"], g["dt"], fch1, asc, data, seed=1)
        fr.t_start = T0
    return fr


def _meta_q(fr, g):
    """The drift rate in the frame's own metadata dictionary in quarter channels per row (99 = none)."""
    md = getattr(fr, "metadata", None)
    if not isinstance(md, dict) or "drift_rate" not in md:
        return 99
    q = float(md["drift_rate"]) / (g["df"] / g["dt"]) * 4.0
    return int(round(q)) if abs(q - round(q)) < 1e-6 else q


def project(fr, gname):
    g = GEOMS[gname]
    lo_f = (fr.fmin - g["f0"]) / g["df"]
    lo = int(round(lo_f))
    d = np.asarray(fr.data, dtype=float)
    ids = np.rint(d).astype(int)
    return {"F": int(fr.fchans), "T": int(fr.tchans), "asc": bool(fr.ascending), "lo": lo if abs(lo_f - lo) < 1e-3 else lo_f,
            "t0": 7 if abs(fr.t_start - T0) < 1e-4 else fr.t_start, "src": str(fr.source_name),
            "tsoff": (int(round(fr.ts[0] / g["dt"])) if len(fr.ts) and abs(fr.ts[0] / g["dt"] - round(fr.ts[0] / g["dt"])) < 1e-6 else "off-grid"),
            "tsgap": (int(round((fr.ts[-1] - fr.ts[0]) / g["dt"])) - (len(fr.ts) - 1)) if len(fr.ts) > 1 else 0,
            "meta": _meta_q(fr, g),
            "data": ids.tolist() if d.shape == (fr.tchans, fr.fchans) and np.all(np.abs(d - ids) < 1e-6) else "shape %s / non-integer" % (d.shape,),
            "axes_ok": (len(fr.fs) == fr.fchans and len(fr.ts) == fr.tchans and abs(fr.df - g["df"]) < 1e-9 * g["df"]
                        and abs(fr.dt - g["dt"]) < 1e-9 * g["dt"] and tuple(fr.shape) == (fr.tchans, fr.fchans))}


def compare(exp, obs, cls, what):
    for k in ("F", "T", "asc", "lo", "data", "tsoff", "tsgap", "meta"):
        if exp[k] != obs[k]:
            raise Div(cls, "%s.%s" % (what, k), exp[k], obs[k])
    if not obs["axes_ok"]:
        raise Div(cls, "%s.axes" % what, "fs/ts lengths and resolutions consistent", "inconsistent")
    if exp["t0"] != obs["t0"]:
        raise Div(cls, "%s.t_start" % what, "parent/saved start time", obs["t0"])
    if exp["src"] != obs["src"]:
        raise Div(cls, "%s.source_name" % what, exp["src"], obs["src"])


_count = [0]


def check_file(path, exp, gname, light=False):
    """Independent reader + the stand-alone helpers on a written file (exp: the frame projection TLC says was saved)."""
    g = GEOMS[gname]
    wf = Waterfall(path)
    h = wf.header
    F, T = exp["F"], exp["T"]
    if int(h["nchans"]) != F or wf.data.shape != (T, 1, F):
        raise Div("C03", "file.shape", [T, F], [list(wf.data.shape), int(h["nchans"])])
    foff = float(h["foff"]) * 1e6
    fch1 = float(h["fch1"]) * 1e6
    if (foff > 0) != exp["asc"] or abs(abs(foff) - g["df"]) > 1e-9 * g["df"] or abs(float(h["tsamp"]) - g["dt"]) > 1e-9 * g["dt"]:
        raise Div("C03", "file.foff/tsamp", [exp["asc"], g["df"], g["dt"]], [foff, float(h["tsamp"])])
    d = wf.data[:, 0, :]
    for k in range(F):
        w = (fch1 + k * foff - g["f0"]) / g["df"]
        wi = int(round(w))
        if abs(w - wi) > 1e-3:
            raise Div("C03", "file.grid", "column on the frame grid", w)
        col = np.rint(d[:, k]).astype(int)
        want = [exp["data"][i][wi - exp["lo"]] if 0 <= wi - exp["lo"] < F else None for i in range(T)]
        if col.tolist() != want:
            raise Div("C03", "file.pixels_at_sky_frequency", {"file_column": k, "world_channel": wi, "ids": want}, col.tolist())
    src = h["source_name"]
    src = src.decode() if isinstance(src, bytes) else src
    if src != exp["src"]:
        raise Div("C03", "file.source_name", exp["src"], src)
    if abs(Time(h["tstart"], format="mjd").unix - T0) > 1e-4:
        raise Div("C03", "file.tstart", T0, Time(h["tstart"], format="mjd").unix)
    # stand-alone helpers (every file of the random behaviours, every fourth file of the exhaustive families)
    _count[0] += 1
    if light and _count[0] % 4:
        return
    fs = waterfall_utils.get_fs(path)
    ts = waterfall_utils.get_ts(path)
    if len(fs) != F or len(ts) != T:
        raise Div("C03", "helpers.axis_lengths", [F, T], [len(fs), len(ts)])
    want_fs = (fch1 + np.arange(F) * foff) * 1e-6
    if np.max(np.abs(np.asarray(fs) - want_fs)) > 1e-6 * g["df"] * 1e-6 + 4 * np.spacing(abs(want_fs[0])):
        raise Div("C03", "helpers.get_fs", want_fs.tolist(), np.asarray(fs).tolist())
    if np.max(np.abs(np.asarray(ts) - np.arange(T) * g["dt"])) > 1e-9 * g["dt"] * T:
        raise Div("C03", "helpers.get_ts", (np.arange(T) * g["dt"]).tolist(), np.asarray(ts).tolist())
    lo_hz = (g["f0"] + exp["lo"] * g["df"]) * 1e-6
    hi_hz = (g["f0"] + (exp["lo"] + F - 1) * g["df"]) * 1e-6
    tolf = 1e-6 * g["df"] * 1e-6 + 4 * np.spacing(hi_hz)
    if abs(waterfall_utils.min_freq(path) - lo_hz) > tolf or abs(waterfall_utils.max_freq(path) - hi_hz) > tolf:
        raise Div("C03", "helpers.min/max_freq", [lo_hz, hi_hz], [waterfall_utils.min_freq(path), waterfall_utils.max_freq(path)])
    gd = waterfall_utils.get_data(path)
    if gd.shape != (T, F) or not np.array_equal(np.rint(gd).astype(int), np.rint(d).astype(int)):
        raise Div("C03", "helpers.get_data", [T, F], list(gd.shape))


def replay(beh, gname, workdir, tag):
    """Replay one behaviour; returns the list of divergences (the first one per step and class; a status mismatch
    ends the replay because the object table would be out of step with the specification)."""
    g = GEOMS[gname]
    objs = []
    files = {}
    found = []
    seen = set()

    def note(d, k):
        d.step = k
        key = (d.cls, d.field.split(".")[-1])
        if key not in seen:
            seen.add(key)
            found.append(d)
    try:
        for k, st in enumerate(beh):
            act = st["act"]
            name = act["name"]
            if name == "Done":
                break
            exp_st = st["res"]["st"]
            got_st = "ok"
            try:
                if name == "Create":
                    objs.append(create(act, gname, st["objs"][-1]["src"]))
                    if st["objs"][-1].get("meta", 99) != 99:      # created with a drift rate in its bookkeeping dictionary
                        objs[-1].add_metadata({"drift_rate": st["objs"][-1]["meta"] / 4.0 * g["df"] / g["dt"]})
                elif name == "SetMeta":
                    fo = objs[act["o"] - 1]
                    (fo.add_metadata if k % 2 else fo.update_metadata)({"drift_rate": act["q"] / 4.0 * g["df"] / g["dt"]})
                elif name == "DedriftMeta":
                    objs.append(stg.dedrift(objs[act["o"] - 1]))      # the rate of the frame's own dictionary
                elif name == "GetWaterfall":
                    objs[act["o"] - 1].get_waterfall()
                elif name == "Copy":
                    objs.append(objs[act["o"] - 1].copy())
                elif name == "Pickle":
                    import pickle
                    src_fr = objs[act["o"] - 1]
                    if k % 2:
                        objs.append(pickle.loads(pickle.dumps(src_fr)))
                    else:
                        pp = os.path.join(workdir, "%s_%d.pickle" % (tag, k))
                        src_fr.save_pickle(pp)
                        objs.append(stg.Frame.load_pickle(pp))
                        os.remove(pp)
                elif name == "ShiftTs":
                    fo = objs[act["o"] - 1]
                    if act.get("kind", "shift") == "shift":
                        fo.ts = fo.ts + 5 * g["dt"]
                    else:
                        fo.ts = fo.ts + np.where(np.arange(len(fo.ts)) >= 1, 5 * g["dt"], 0.0)
                elif name == "Rebind":
                    fo = objs[act["o"] - 1]
                    if k % 3 == 0:
                        fo.data = fo.data + 250000
                    elif k % 3 == 1:
                        new = np.array(fo.data, dtype=float) + 250000
                        fo.zero_data()
                        fo.data = new
                    else:
                        pp = os.path.join(workdir, "%s_%d.npy" % (tag, k))
                        np.save(pp, np.array(fo.data, dtype=float) + 250000)
                        fo.load_npy(pp)
                        os.remove(pp)
                elif name == "LoadT":
                    p = files[act["file"]]
                    objs.append(stg.Frame(waterfall=Waterfall(p, t_start=act["a"], t_stop=act["b"])))
                elif name == "Mutate":
                    objs[act["o"] - 1].data += 500000
                elif name == "Slice":
                    objs.append(objs[act["o"] - 1].get_slice(act.get("al", act["l"]), act.get("ar", act["r"])))
                elif name == "Dedrift":
                    fr = objs[act["o"] - 1]
                    rate = act["q"] / 4.0 * g["df"] / g["dt"]
                    if k % 2:
                        # an explicit rate (zero included) wins over a rate in the metadata
                        had = "drift_rate" in fr.metadata
                        old = fr.metadata.get("drift_rate")
                        fr.add_metadata({"drift_rate": 1.25 * g["df"] / g["dt"]})
                        try:
                            new = stg.dedrift(fr, rate if k % 4 == 1 else np.float64(rate))
                        finally:
                            if had:
                                fr.metadata["drift_rate"] = old
                            else:
                                del fr.metadata["drift_rate"]
                        if not had and "drift_rate" in new.metadata and new.metadata is not fr.metadata:
                            del new.metadata["drift_rate"]
                        if had and new.metadata is not fr.metadata:
                            new.metadata["drift_rate"] = old
                    else:
                        had = "drift_rate" in fr.metadata
                        old = fr.metadata.get("drift_rate")
                        fr.add_metadata({"drift_rate": rate})
                        try:
                            new = stg.dedrift(fr)
                        finally:
                            if had:
                                fr.metadata["drift_rate"] = old
                            else:
                                del fr.metadata["drift_rate"]
                        # the rate was lent to the parent's dictionary for this one call: the child's copy goes back too
                        if new.metadata is not fr.metadata:
                            if had:
                                new.metadata["drift_rate"] = old
                            elif "drift_rate" in new.metadata:
                                del new.metadata["drift_rate"]
                    objs.append(new)
                elif name == "Integrate":
                    try:
                        check_integrate(objs[act["o"] - 1], act["axis"], st["res"], gname)
                    except Div as d:
                        note(d, k)
                elif name == "Save":
                    path = os.path.join(workdir, "%s_%d.%s" % (tag, act["file"], act["fmt"]))
                    fr = objs[act["o"] - 1]
                    if act["fmt"] == "fil":
                        fr.save_fil(path)
                    elif k % 2:
                        fr.save_hdf5(path)
                    else:
                        fr.save_h5(path)
                    files[act["file"]] = path
                    try:
                        check_file(path, st["res"]["file"], gname, light=tag.startswith("f"))
                    except Div as d:
                        note(d, k)
                elif name == "SaveFail":
                    fr = objs[act["o"] - 1]
                    bad = os.path.join(workdir, "no_such_directory_%s" % tag, "x.%s" % act["fmt"])
                    try:
                        if act["fmt"] == "fil":
                            fr.save_fil(bad)
                        else:
                            fr.save_h5(bad)
                    except (OSError, IOError):
                        raise OSError("save into a missing directory")       # any OS-level failure is the expected outcome
                elif name == "LoadSub":
                    try:
                        check_loadsub(files[act["file"]], st["res"]["file"], act["l"], act["r"], gname)
                    except Div as d:
                        note(d, k)
                elif name == "Load":
                    p = files[act["file"]]
                    objs.append(stg.Frame(waterfall=p) if k % 2 else stg.Frame.from_waterfall(p))
                else:
                    raise RuntimeError("adapter: unknown action %s" % name)
            except Div:
                raise
            except (ValueError, KeyError, IndexError, TypeError, AttributeError, OSError, RuntimeError, SystemExit) as e:
                got_st = type(e).__name__
                msg = str(e)[:200]
            if got_st != exp_st:
                cls = "C17" if name in ("Slice", "Dedrift", "DedriftMeta", "SetMeta", "Integrate") else "C03"
                raise Div(cls + "|C12" if name in ("Copy", "Pickle") else cls, "%s.status" % name, exp_st, got_st if got_st == "ok" else "%s: %s" % (got_st, msg))
            if len(objs) != len(st["objs"]):
                raise RuntimeError("adapter out of sync with the spec")
            for i, (w, o) in enumerate(zip(st["wf"], objs)):
                if w and o.waterfall is None:
                    note(Div("C12|C03", "%s.obj%d.waterfall_lost" % (name, i + 1), "the frame keeps its Waterfall", "waterfall is None"), k)
            for i, (e, o) in enumerate(zip(st["objs"], objs)):
                newest = (i == len(objs) - 1)
                if name in ("Slice", "Dedrift") and newest:
                    cls = "C17"
                elif name in ("Load", "LoadT") and newest:
                    cls = "C03"
                elif name in ("Copy", "Pickle") and newest:
                    cls = "C12|C03"
                elif name in ("Mutate", "Rebind"):
                    cls = "C17|C12|C03"
                else:
                    cls = "C03|C17"
                try:
                    compare(e, project(o, gname), cls, "%s.obj%d" % (name, i + 1))
                except Div as d:
                    note(d, k)
    except Div as d:
        note(d, k)
    finally:
        for p in files.values():
            if os.path.exists(p):
                os.remove(p)
    return found


def check_loadsub(path, saved, l, r, gname):
    g = GEOMS[gname]
    f_lo = (g["f0"] + (saved["lo"] + l - 0.5) * g["df"]) * 1e-6
    f_hi = (g["f0"] + (saved["lo"] + r - 1 + 0.5) * g["df"]) * 1e-6
    try:
        sub = stg.Frame(waterfall=path, f_start=f_lo, f_stop=f_hi)
    except (SystemExit, Exception) as e:
        raise Div("C03", "LoadSub.status", "ok", "%s: %s" % (type(e).__name__, str(e)[:150]))
    p = project(sub, gname)
    off = p["lo"] - saved["lo"] if isinstance(p["lo"], int) else None
    ok = (off is not None and p["asc"] == saved["asc"] and p["T"] == saved["T"] and abs(p["F"] - (r - l)) <= 1
          and 0 <= off and off + p["F"] <= saved["F"] and abs(off - l) <= 1 and p["axes_ok"] and isinstance(p["data"], list)
          and all(p["data"][i][j] == saved["data"][i][off + j] for i in range(p["T"]) for j in range(p["F"])))
    if not ok:
        raise Div("C03", "LoadSub.registration", {"window_of": saved, "about": [l, r]}, p)


def check_integrate(fr, axis, res, gname):
    sums = np.array(res["sums"], dtype=float)
    n = res["count"]
    for mode, want in (("sum", sums), ("mean", sums / n)):
        got = stg.integrate(fr, axis=axis, mode=mode)
        if got.shape != want.shape or np.max(np.abs(got - want)) > 1e-9 * np.max(np.abs(want)):
            raise Div("C17", "Integrate.%s" % mode, want.tolist(), np.asarray(got).tolist())
        obj = stg.integrate(fr, axis=axis, mode=mode, as_frame=True)
        if axis == "t":
            if not isinstance(obj, stg.Spectrum) or obj.data.shape != (1, fr.fchans) or not np.allclose(obj.fs, fr.fs, rtol=0, atol=1e-6 * fr.df) \
                    or bool(obj.ascending) != bool(fr.ascending):
                raise Div("C17", "Integrate.spectrum_axis", "parent's frequency axis", "mismatch")
            arr = obj.data[0]
        else:
            if not isinstance(obj, stg.TimeSeries) or obj.data.shape != (fr.tchans, 1) or not np.allclose(obj.ts, fr.ts, rtol=0, atol=1e-9 * fr.dt) \
                    or bool(obj.ascending) != bool(fr.ascending):
                raise Div("C17", "Integrate.timeseries_axis", "parent's time axis", "mismatch")
            arr = obj.data[:, 0]
        if np.max(np.abs(arr - want)) > 1e-9 * np.max(np.abs(want)):
            raise Div("C17", "Integrate.as_frame.values", want.tolist(), arr.tolist())
        if abs(obj.t_start - fr.t_start) > 1e-4 or obj.source_name != fr.source_name:
            raise Div("C17", "Integrate.as_frame.meta", [fr.t_start, fr.source_name], [obj.t_start, obj.source_name])
    if len(sums) >= 3 and np.std(sums) > 0:
        norm = stg.integrate(fr, axis=axis, mode="mean", normalize=True)
        raw = sums / n
        if norm.shape != raw.shape or not np.all(np.isfinite(norm)):
            raise Div("C17", "Integrate.normalize", "finite", np.asarray(norm).tolist())
        obj_n = stg.integrate(fr, axis=axis, mode="mean", normalize=True, as_frame=True)
        arr_n = obj_n.data[0] if axis == "t" else obj_n.data[:, 0]
        if arr_n.shape != norm.shape or np.max(np.abs(arr_n - norm)) > 1e-9 * max(1.0, np.max(np.abs(norm))):
            raise Div("C17", "Integrate.normalize.as_frame", "the object holds the normalised values the plain call returns", np.asarray(arr_n).tolist())
        a, b = np.polyfit(raw, norm, 1)
        if a <= 0 or np.max(np.abs(a * raw + b - norm)) > 1e-6 * max(1.0, np.max(np.abs(norm))):
            raise Div("C17", "Integrate.normalize", "increasing affine image of the raw result", np.asarray(norm).tolist())
