"""Random drivers whose executions are recorded (harness/record_stream.py) and validated by spec/StreamTrace.tla:
free-form lives of lone streams, antennas and arrays side by side (requests of any size incl. refused ones, set / add
time, resets, update_noise, direct calls on member streams of an antenna)."""
import random

from setigen.voltage import antenna as v_antenna
from setigen.voltage import data_stream as v_ds

from .. import record_stream as rs


def drive(seed, nops=18):
    rnd = random.Random(seed)
    rec = rs.Recorder()
    with rs.recording(rec):
        rate = rnd.choice([1024.0, 65536.0, 187.5e6])
        t0 = rnd.choice([0, 0, 6, 1000]) / rate
        objs = []
        delays = rnd.choice([None, [0, 0], [0, 2], [3, 1, 2], [2]])
        nant = len(delays) if delays else rnd.choice([1, 2])
        arr = v_antenna.MultiAntennaArray(num_antennas=nant, sample_rate=rate, fch1=0, ascending=True, num_pols=rnd.choice([1, 2]),
                                          delays=delays, t_start=t0, seed=rnd.randrange(1 << 30))
        ant = v_antenna.Antenna(sample_rate=rate, fch1=0, ascending=rnd.random() < 0.5, num_pols=rnd.choice([1, 2]), t_start=t0,
                                seed=rnd.randrange(1 << 30))
        lone = v_ds.DataStream(sample_rate=rate, fch1=0, ascending=True, t_start=t0, seed=rnd.randrange(1 << 30))
        for s in [lone] + ant.streams + [s for a in arr.antennas for s in a.streams] + list(arr.bg_streams):
            s.add_noise(0, 1)
        objs = [arr, arr, ant, ant, lone]
        for _ in range(nops):
            o = rnd.choice(objs)
            op = rnd.choice(["get", "get", "get", "bad", "set", "add", "reset", "update", "member"])
            try:
                if op == "get":
                    o.get_samples(rnd.randrange(1, 12) + (arr.max_delay if o is arr else 0))
                elif op == "bad":
                    o.get_samples(rnd.choice([-1, 2.5, arr.max_delay if o is arr and arr.max_delay > 0 else -3]))
                elif op == "set":
                    o.set_time(rnd.choice([0, 7, 123]) / rate)
                elif op == "add":
                    o.add_time(rnd.choice([0, 5]) / rate)
                elif op == "reset":
                    o.reset_start() if hasattr(o, "reset_start") else o.add_time(0)
                elif op == "update":
                    s = rnd.choice([lone] + ant.streams + list(arr.bg_streams))
                    s.update_noise(stats_calc_num_samples=rnd.choice([4, 50]))
                elif op == "member" and o is ant:
                    rnd.choice(ant.streams).get_samples(rnd.randrange(1, 6))        # a member stream driven directly
            except (ValueError, TypeError, AssertionError):
                pass
    return rec.trace()
