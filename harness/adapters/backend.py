"""Adapter binding Backend.tla to setigen.voltage.RawVoltageBackend.

For every configuration emitted by TLC (partition, blocks, files, pols, bits, dictionary mode; two recordings in
one process) a real backend records to a scratch directory.  Compared with the model: the antenna requests (size
and start flag), the files / blocks-per-file / PKTIDX sequence, the accounting attributes; and the data bytes of
every block with the harness-owned reference pipeline laid out by the standard GUPPI formula."""
import hashlib
import os
import shutil

import numpy as np

from setigen.voltage import antenna as v_antenna
from setigen.voltage import backend as v_backend
from setigen.voltage import polyphase_filterbank as v_pfb
from setigen.voltage import quantization as v_q

from .. import guppi, refpipe


class Div(Exception):
    def __init__(self, cls, field, expected, observed, rec=0):
        Exception.__init__(self, field)
        self.cls, self.field, self.expected, self.observed, self.rec = cls, field, expected, observed, rec


def derive(cfg, seed):
    """Concrete instantiation parameters the model abstracts from, derived deterministically."""
    h = int(hashlib.sha1(("%s|%d" % (sorted(cfg.items()), seed)).encode()).hexdigest(), 16)
    B = [8, 16][h % 2]
    nchan_max = B // 2
    nch = 1 + (h // 2) % min(nchan_max, 3)
    start = (h // 8) % (nchan_max - nch + 1)
    inst = {
        "B": B, "nch": nch, "start_chan": start,
        "ascending": bool((h // 64) % 2),
        "digitize": (h // 128) % 4 != 0,
        "rate": [1024.0, 3e9, 187.5e6][(h // 512) % 3],
        "nant": 1 if (h // 2048) % 4 else 2,
        "seed": 1000 + h % 100000,
        "template": (h // 8192) % 3 == 0,
    }
    inst["delays"] = [0, 2][:inst["nant"]] if (h // 4096) % 2 else [1, 0][:inst["nant"]]
    return inst


def make_source(cfg, inst, with_sources=True):
    kw = dict(sample_rate=inst["rate"], fch1=0, ascending=inst["ascending"], num_pols=cfg["pols"], seed=inst["seed"])
    if inst["nant"] == 1:
        src = v_antenna.Antenna(**kw)
        ants = [src]
    else:
        src = v_antenna.MultiAntennaArray(num_antennas=inst["nant"], delays=inst["delays"], **kw)
        ants = src.antennas
    if with_sources:
        chan_bw = inst["rate"] / inst["B"]
        for ai, a in enumerate(ants):
            for p, s in enumerate(a.streams):
                s.add_noise(0, 1)
                f = (inst["start_chan"] + 0.3 + 0.2 * p + 0.1 * ai) * chan_bw
                s.add_constant_signal(f_start=f, drift_rate=0.0, level=0.7, phase=0.2 * p)
        if inst["nant"] > 1:
            for s in src.bg_streams:
                s.add_noise(0, 0.5)
    return src, ants


def req_fwhm(bits):
    return 32.0 if bits == 8 else 5.0


def make_backend(cfg, inst, src):
    taps, B = cfg["taps"], inst["B"]
    dig = v_q.RealQuantizer(target_fwhm=32, num_bits=8, stats_calc_period=-1, stats_calc_num_samples=2 * taps * B)
    fb = v_pfb.PolyphaseFilterbank(num_taps=taps, num_branches=B)
    req = v_q.ComplexQuantizer(target_fwhm=req_fwhm(cfg["bits"]), num_bits=cfg["bits"], stats_calc_period=-1,
                               stats_calc_num_samples=taps)
    T = taps * cfg["U"]
    bps = 2 * cfg["pols"] * cfg["bits"] // 8
    block_size = inst["nant"] * inst["nch"] * T * bps
    be = v_backend.RawVoltageBackend(src, digitizer=dig, filterbank=fb, requantizer=req, start_chan=inst["start_chan"],
                                     num_chans=inst["nch"], block_size=block_size, blocks_per_file=cfg["bpf"],
                                     num_subblocks=cfg["S"])
    return be, T, bps, block_size


def reference_bytes(cfg, inst, twin, nrows):
    """Bytes of every block of one recording according to the reference pipeline + standard layout."""
    taps, B = cfg["taps"], inst["B"]
    T = taps * cfg["U"]
    v = twin.get_samples(nrows * B)                      # one request (continuity itself is C10's business)
    spec = np.zeros((inst["nant"] * inst["nch"], cfg["blocks"] * T, cfg["pols"]), dtype=complex)
    tie = np.ones(spec.shape)
    for a in range(inst["nant"]):
        for p in range(cfg["pols"]):
            q, t, _ = refpipe.pipeline(np.asarray(v[a][p], dtype=float), taps, B, inst["start_chan"], inst["nch"],
                                       cfg["bits"], inst["digitize"], 2 * taps * B, req_fwhm(cfg["bits"]), taps)
            spec[a * inst["nch"]:(a + 1) * inst["nch"], :, p] = q.T
            tie[a * inst["nch"]:(a + 1) * inst["nch"], :, p] = t.T
    blocks = []
    for k in range(cfg["blocks"]):
        blocks.append((guppi.encode_block(spec[:, k * T:(k + 1) * T, :], cfg["bits"]), tie[:, k * T:(k + 1) * T, :]))
    return blocks


def run_config(beh, seed, workdir, check_bytes=True, return_bytes=False, seed_shift=0):
    """Execute one emitted configuration (NRec recordings).  Returns list of Div."""
    cfg = beh["cfg"]
    inst = derive(cfg, seed)
    inst["seed"] += seed_shift
    divs = []
    src, ants = make_source(cfg, inst)
    twin, _ = make_source(cfg, inst)
    be, T, bps, block_size = make_backend(cfg, inst, src)
    reqlog = []
    orig = src.get_samples

    fail_at = [None]          # raise instead of serving the request with this index (0-based) of the current attempt

    class SourceFailure(Exception):
        pass

    def wrapped(n):
        if fail_at[0] is not None and len(reqlog) == fail_at[0]:
            raise SourceFailure("the voltage source fails on request %d" % fail_at[0])
        reqlog.append((int(n), bool(src.start_obs)))
        return orig(n)
    src.get_samples = wrapped
    aborted_rows = 0
    user_dict = {"MYCARD": "abc", "OBSERVER": "tester"}
    first_cards = {}
    all_bytes = []
    try:
        for r, summ in enumerate(beh["recs"]):
            del reqlog[:]
            twin.reset_start()
            stem = os.path.join(workdir, "rec%d" % r)
            kw = dict(num_blocks=cfg["blocks"], length_mode="num_blocks", digitize=inst["digitize"],
                      load_template=inst["template"], verbose=False)
            if cfg["dict"] == "same":
                kw["header_dict"] = user_dict
            elif cfg["dict"] == "fresh":
                kw["header_dict"] = {"MYCARD": "abc", "OBSERVER": "tester"}
            ab = summ.get("abort") or {"n": 0}
            if ab["n"] == 1 and ab["before"] == r + 1:
                # an attempt at this recording in which the source fails part-way: record() must propagate the failure,
                # and the next record() must be unaffected by whatever the attempt left behind
                fail_at[0] = ab["at"]
                try:
                    be.record(stem, **dict(kw))
                    raise Div("C02|C12", "source_failure_swallowed", "the source's exception propagates", "record() returned", r)
                except SourceFailure:
                    pass
                except Div:
                    raise
                except Exception as e:
                    raise Div("C02|C12", "source_failure_masked", "SourceFailure", "%s: %s" % (type(e).__name__, str(e)[:120]), r)
                finally:
                    fail_at[0] = None
                rows_now = sum(q for q, _ in reqlog) // inst["B"]
                if rows_now != ab["rows"]:
                    raise Div("C02|C20", "requests_before_failure", ab["rows"], rows_now, r)
                aborted_rows += rows_now
                twin.reset_start()
                twin.get_samples(rows_now * inst["B"])
                del reqlog[:]
                twin.reset_start()
            try:
                be.record(stem, **kw)
            except Exception as e:
                raise Div("C02|C04|C12|C20", "exception", "ok", "%s: %s" % (type(e).__name__, e), r)
            # requests
            B = inst["B"]
            exp_req = [(q["rows"] * B, q["start"]) for q in summ["reqs"]]
            if reqlog != exp_req:
                raise Div("C02|C20", "requests", exp_req, list(reqlog), r)
            # accounting attributes (C20)
            nrows = cfg["blocks"] * T + cfg["taps"]
            if summ["rowsDrawn"] != nrows:
                raise RuntimeError("spec summary inconsistent")
            tick = src.t_start * inst["rate"]
            want_tick = ((r + 1) * nrows + aborted_rows) * B
            if abs(tick - want_tick) > 1e-6 * want_tick:
                raise Div("C20|C10", "clock", want_tick, tick, r)
            if be.num_blocks != cfg["blocks"] or be.samples_per_block != T:
                raise Div("C20", "num_blocks/samples_per_block", [cfg["blocks"], T], [be.num_blocks, be.samples_per_block], r)
            tpb = T * B / inst["rate"]
            if abs(be.time_per_block - tpb) > 1e-12 * tpb or abs(be.obs_length - cfg["blocks"] * tpb) > 1e-12 * tpb * cfg["blocks"]:
                raise Div("C20", "time_per_block/obs_length", [tpb, cfg["blocks"] * tpb], [be.time_per_block, be.obs_length], r)
            if be.total_obs_num_samples != cfg["blocks"] * T * B:
                raise Div("C20", "total_obs_num_samples", cfg["blocks"] * T * B, be.total_obs_num_samples, r)
            if be.num_subblocks != summ["nsub"]:
                raise Div("C02", "num_subblocks", summ["nsub"], be.num_subblocks, r)
            # files
            nfiles = len(summ["files"])
            names = sorted(fn for fn in os.listdir(workdir) if fn.startswith("rec%d." % r))
            want_names = ["rec%d.%04d.raw" % (r, i) for i in range(nfiles)]
            if names != want_names:
                raise Div("C04", "file_names", want_names, names, r)
            ref = reference_bytes(cfg, inst, twin, nrows) if check_bytes else None
            k = 0
            for i, fn in enumerate(want_names):
                all_bytes.append(open(os.path.join(workdir, fn), "rb").read())
                try:
                    blocks = guppi.parse_file(os.path.join(workdir, fn))
                except guppi.FramingError as e:
                    raise Div("C04", "framing", "well-formed", str(e), r)
                if len(blocks) != len(summ["files"][i]):
                    raise Div("C04", "blocks_in_file", len(summ["files"][i]), len(blocks), r)
                for j, blk in enumerate(blocks):
                    h = blk["hdr"]
                    if h.get("PKTIDX") != summ["files"][i][j]["pktidx"]:
                        raise Div("C04|C12", "pktidx", summ["files"][i][j]["pktidx"], h.get("PKTIDX"), r)
                    if h.get("PKTSTOP") != summ["pktstop"] or h.get("BLOCSIZE") != block_size:
                        raise Div("C04|C20", "pktstop/blocsize", [summ["pktstop"], block_size], [h.get("PKTSTOP"), h.get("BLOCSIZE")], r)
                    scan = h.get("SCANLEN")
                    if scan is None or abs(float(scan) - cfg["blocks"] * tpb) > 1e-9 * cfg["blocks"] * tpb:
                        raise Div("C04|C20", "scanlen", cfg["blocks"] * tpb, scan, r)
                    if h.get("MYCARD", "abc") != "abc" or (cfg["dict"] != "default" and h.get("MYCARD") != "abc"):
                        raise Div("C04", "user_card", "abc", h.get("MYCARD"), r)
                    # the same arguments give the same header, whatever was recorded before in this process
                    cards_now = [(kk, rr) for kk, vv, rr in blk["cards"]]
                    if r == 0:
                        first_cards[(i, j)] = cards_now
                    elif first_cards.get((i, j)) != cards_now:
                        diff_keys = sorted(set(dict(cards_now).items()) ^ set(dict(first_cards.get((i, j), [])).items()))
                        raise Div("C12", "header_differs_from_first_recording", "identical cards", [list(x) for x in diff_keys[:6]], r)
                    if check_bytes:
                        want, tie = ref[k]
                        if blk["data"] != want:
                            got = guppi.decode_block(blk["data"], inst["nant"] * inst["nch"], cfg["pols"], cfg["bits"])
                            exp = guppi.decode_block(want, inst["nant"] * inst["nch"], cfg["pols"], cfg["bits"])
                            diff = (got != exp)
                            hard = diff & ((tie > 1e-7) | (np.abs(got - exp) > 1.5))
                            if np.any(hard):
                                idx = np.argwhere(hard)[0].tolist()
                                raise Div("C02" if r == 0 else "C02|C12", "bytes", {"block": k, "chan_time_pol": idx, "value": str(exp[tuple(idx)])},
                                          {"value": str(got[tuple(idx)]), "n_wrong": int(hard.sum()), "n_total": int(diff.size)}, r)
                    k += 1
            # the caller's dictionary must not change what a later recording writes
            if cfg["dict"] == "same" and user_dict.get("MYCARD") != "abc":
                raise Div("C12", "caller_dict", "abc", user_dict.get("MYCARD"), r)
    except Div as d:
        divs.append(d)
    finally:
        for fn in os.listdir(workdir):
            os.remove(os.path.join(workdir, fn))
    if return_bytes:
        return divs, inst, all_bytes
    return divs, inst
