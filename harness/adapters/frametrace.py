"""Random drivers whose executions are recorded (harness/record_frame.py) and validated by spec/FrameTrace.tla:
free-form lives of several frames at once (noise of every kind at several intensity scales, table noise, zero_data,
signal injection in every form incl. raising callbacks and unit-carrying arguments, SNR queries with and without noise,
slices / de-drifted / integrated frames operated on further, copies of every route (Frame.copy, deepcopy, pickle round
trip, save_pickle / load_pickle) operated on alongside their originals, frames saved as .fil / .h5 -- after any prior
history incl. get_waterfall, repeated saves to the same path in either format -- and constructed again from the file)."""
import copy
import os
import pickle
import random
import tempfile

import numpy as np
from astropy import units as u

import setigen as stg

from .. import record_frame as rf


class Boom(Exception):
    pass


SCALES = (1.0, 4.0e6, 1.0e-3, 1.0e-10)


def drive(seed, nops=16):
    rnd = random.Random(seed)
    rec = rf.Recorder()
    with tempfile.TemporaryDirectory(prefix="verif_ft_") as tmp, rf.recording(rec):
        frames = []

        def new():
            F, T = rnd.choice([16, 32, 64]), rnd.choice([4, 8, 16])
            asc = rnd.random() < 0.4
            df, dt = rnd.choice([(2.7939677238464355, 18.253611008), (1.0, 1.0), (1.7, 0.7), (2.5, 1.25)])
            how = rnd.random()
            if how < 0.6:
                fr = stg.Frame(fchans=F, tchans=T, df=df, dt=dt, fch1=6e9, ascending=asc, seed=rnd.randrange(1 << 30))
            elif how < 0.8:
                data = np.random.default_rng(rnd.randrange(1 << 30)).chisquare(4, size=(T, F)) * rnd.choice(SCALES)
                fr = stg.Frame.from_data(df, dt, 6e9, asc, data if rnd.random() < 0.5 else data.astype(np.float32), seed=rnd.randrange(1 << 30))
            else:
                fr = stg.Frame(fchans=F * u.pixel, tchans=T, df=df * u.Hz, dt=dt * u.s, fch1=6000 * u.MHz, ascending=asc, seed=rnd.randrange(1 << 30))
            frames.append((fr, rnd.choice(SCALES)))

        new()
        for _ in range(nops):
            if rnd.random() < 0.1 or not frames:
                new()
                continue
            k = rnd.randrange(len(frames))
            fr, sc = frames[k]
            op = rnd.choice(["chi2", "gauss", "trunc", "obs", "obs_user", "zero", "signal", "signal", "const", "snr", "snr", "slice",
                             "dedrift", "integrate", "copy", "pickle", "bad_noise", "bad_signal", "save_load", "save_load", "pickle_file", "get_waterfall", "rewrap", "meta", "meta", "dedrift_meta", "family_meta", "info"])
            try:
                if op == "chi2":
                    fr.add_noise(x_mean=rnd.choice([1, 10, 25.5]) * sc, noise_type="chi2")
                elif op == "gauss":
                    fr.add_noise(rnd.choice([0.0, 10.0]) * sc, rnd.choice([1.0, 2.5]) * sc, noise_type=rnd.choice(["gaussian", "normal"]))
                elif op == "trunc":
                    fr.add_noise(10.0 * sc, 2.0 * sc, x_min=9.0 * sc, noise_type="gaussian")
                elif op == "obs":
                    fr.add_noise_from_obs(share_index=rnd.random() < 0.5, noise_type=rnd.choice(["chi2", "gaussian"]))
                elif op == "obs_user":
                    m = np.array([100.0, 101.0, 102.0]) * sc
                    s = np.array([10.0, 11.0, 12.0]) * sc
                    kw = {}
                    if rnd.random() < 0.4:
                        kw["x_min_array"] = m - s / 2
                    fr.add_noise_from_obs(x_mean_array=m, x_std_array=s, share_index=rnd.random() < 0.5,
                                          noise_type="gaussian" if kw or rnd.random() < 0.5 else "chi2", **kw)
                elif op == "zero":
                    fr.zero_data()
                elif op == "signal":
                    lvl = sc * rnd.choice([1.0, 50.0])
                    path = rnd.choice([stg.constant_path(f_start=fr.get_frequency(fr.fchans // 3), drift_rate=rnd.choice([0.0, 0.03, -0.02]) * fr.unit_drift_rate * 10),
                                       fr.get_frequency(fr.fchans // 2), np.full(fr.tchans, fr.get_frequency(2))])
                    tprof = rnd.choice([stg.constant_t_profile(level=lvl), lvl, np.full(fr.tchans, lvl)])
                    kw = {}
                    if rnd.random() < 0.3:
                        lo, hi = fr.get_frequency(1), fr.get_frequency(fr.fchans - 2)
                        kw["bounding_f_range"] = (lo, hi) if rnd.random() < 0.5 else (lo * u.Hz, (hi / 1e6) * u.MHz)
                    if rnd.random() < 0.3:
                        kw.update(integrate_f_profile=True, f_subsamples=3)
                    if rnd.random() < 0.2 and callable(path):
                        kw["doppler_smearing"] = True
                    fr.add_signal(path, tprof, stg.gaussian_f_profile(width=3 * fr.df), stg.constant_bp_profile(level=1), **kw)
                elif op == "const":
                    fr.add_constant_signal(f_start=fr.get_frequency(fr.fchans // 2), drift_rate=rnd.choice([0.0, 0.5, -0.5]) * fr.unit_drift_rate,
                                           level=sc * 20, width=rnd.choice([2 * fr.df, (2 * fr.df) * u.Hz]), f_profile_type=rnd.choice(["gaussian", "box", "sinc2"]),
                                           doppler_smearing=rnd.random() < 0.3)
                elif op == "snr":
                    if rnd.random() < 0.5:
                        fr.get_intensity(snr=rnd.choice([10, 30.5]))
                    else:
                        fr.get_snr(rnd.choice([1.0, 3.0]) * sc)
                elif op == "slice":
                    l = rnd.randrange(0, fr.fchans - 4)
                    frames.append((fr.get_slice(l, rnd.randrange(l + 3, fr.fchans + 1)) if rnd.random() < 0.5 else stg.get_slice(fr, l, l + 4), sc))
                elif op == "dedrift":
                    frames.append((stg.dedrift(fr, rnd.choice([0.0, 0.3, -0.3, 5.0]) * fr.unit_drift_rate), sc))
                elif op == "integrate":
                    r = rnd.random()
                    if r < 0.3:
                        stg.spectrum(fr)
                    elif r < 0.6:
                        stg.timeseries(fr, mode="sum")
                    else:
                        stg.integrate(fr, axis=rnd.choice(["t", "f", 0, 1]), mode=rnd.choice(["mean", "sum"]), as_frame=True)
                elif op == "copy":
                    frames.append((rf.copy_event(rec, fr, lambda: copy.deepcopy(fr), "deepcopy") if rnd.random() < 0.5 else fr.copy(), sc))
                elif op == "pickle":
                    frames.append((rf.copy_event(rec, fr, lambda: pickle.loads(pickle.dumps(fr)), "pickle"), sc))
                elif op == "meta":
                    if rnd.random() < 0.7:
                        fr.add_metadata({"drift_rate": rnd.choice([0.0, 0.3, -0.3, 1.0]) * fr.unit_drift_rate})
                    else:
                        fr.update_metadata({"observer": "verif", "drift_rate": rnd.choice([0.0, 0.5]) * fr.unit_drift_rate})
                elif op == "dedrift_meta":
                    frames.append((stg.dedrift(fr), sc))          # rate from the frame's own metadata (KeyError without one)
                elif op == "family_meta":
                    # bookkeeping of a parent and of a frame derived from it, written alternately, then the rate read back
                    fr.add_metadata({"drift_rate": rnd.choice([0.3, -0.3]) * fr.unit_drift_rate})
                    child = fr.get_slice(1, fr.fchans - 1) if rnd.random() < 0.5 else stg.dedrift(fr)
                    frames.append((child, sc))
                    who = child if rnd.random() < 0.6 else fr
                    who.add_metadata({"drift_rate": rnd.choice([0.0, 0.6]) * fr.unit_drift_rate})
                    frames.append((stg.dedrift(fr if who is child else child), sc))
                elif op == "info":
                    rnd.choice([fr.get_noise_stats, fr.get_total_stats, fr.get_params, fr.get_metadata])()
                elif op == "rewrap":
                    # a second frame built from the first one's pixel array: the constructor copies, so the two stay independent
                    frames.append((stg.Frame.from_data(fr.df, fr.dt, fr.fch1, fr.ascending, fr.data, seed=rnd.randrange(1 << 30)), sc))
                elif op == "get_waterfall":
                    fr.get_waterfall() if rnd.random() < 0.7 else fr.check_waterfall()
                elif op == "save_load":
                    # blimpy's readers need at least 3 integrations and 3 channels
                    if fr.tchans >= 3 and fr.fchans >= 3:
                        ext = rnd.choice(["fil", "h5"])
                        path = os.path.join(tmp, "f%d.%s" % (rnd.randrange(3), ext))
                        if ext == "fil":
                            fr.save_fil(path)
                        elif rnd.random() < 0.5:
                            fr.save_h5(path)
                        else:
                            fr.save_hdf5(path)
                        if rnd.random() < 0.8:
                            frames.append((stg.Frame(waterfall=path) if rnd.random() < 0.6 else stg.Frame(path), sc))
                elif op == "pickle_file":
                    path = os.path.join(tmp, "p%d.pickle" % rnd.randrange(2))
                    fr.save_pickle(path)
                    frames.append((stg.Frame.load_pickle(path), sc))
                elif op == "bad_noise":
                    fr.add_noise(x_mean=10 * sc, noise_type=rnd.choice(["gaussian", "uniform"]))       # gaussian without deviation / unknown type
                elif op == "bad_signal":
                    def t_boom(ts):
                        raise Boom("callback fails")
                    fr.add_signal(stg.constant_path(f_start=fr.get_frequency(3), drift_rate=0.0), t_boom,
                                  stg.box_f_profile(width=2 * fr.df), stg.constant_bp_profile(level=1))
            except (ValueError, TypeError, KeyError, IndexError, Boom, AttributeError, ZeroDivisionError):
                pass
            if len(frames) > 5:
                frames.pop(rnd.randrange(len(frames)))
    return rec.trace(strict=True)
