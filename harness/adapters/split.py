"""Adapter binding Split.tla to setigen.split_utils (C19)."""
import contextlib
import io
import os
import shutil

import numpy as np

import setigen as stg
from setigen import split_utils

GEOMS = [dict(df=2.7939677238464355, f0=6095211984.124035), dict(df=1.0, f0=1.0e6), dict(df=0.1, f0=1.4204e9),
         dict(df=2929687.5, f0=1.0e9), dict(df=0.3, f0=2.5e8), dict(df=1.3969838619232178, f0=8.0e9)]


class Div(Exception):
    def __init__(self, field, expected, observed):
        Exception.__init__(self, field)
        self.field, self.expected, self.observed = field, expected, observed


def write_band(job, g, workdir):
    """The input file of a group of band jobs (same N, T, orientation): written once, split several times."""
    N, T, asc = job["N"], job["T"], job["asc"]
    fch1 = g["f0"] if asc else g["f0"] + (N - 1) * g["df"]
    fr = stg.Frame(fchans=N, tchans=T, df=g["df"], dt=1.0, fch1=fch1, ascending=asc, t_start=1.6e9)
    fr.data = np.array([[1000.0 * (i + 1) + j for j in range(N)] for i in range(T)])      # j = world channel (memory order)
    path = os.path.join(workdir, "band.fil")
    fr.save_fil(path)
    return path


def check_band(rec, g, workdir, path=None):
    job, pieces = rec["job"], rec["pieces"]
    N, F, s, T, asc = job["N"], job["F"], job["s"], job["T"], job["asc"]
    tsel = job["Tsel"] or None
    own = path is None
    if own:
        path = write_band(job, g, workdir)

    def file_cols(lo, hi):
        """World channels of file columns [lo, hi) (file order: descending files start at the top)."""
        return [(k if asc else N - 1 - k) for k in range(lo, hi)]
    try:
        try:
            got = list(split_utils.split_waterfall_generator(path, F, tchans=tsel, f_shift=s))
        except Exception as e:
            raise Div("generator.exception", "ok", "%s: %s" % (type(e).__name__, e))
        if len(got) != len(pieces):
            raise Div("piece_count", len(pieces), len(got))
        rows = tsel or T
        for k, (wf, p) in enumerate(zip(got, pieces)):
            d = wf.data[:, 0, :]
            cols = file_cols(p["lo"], p["hi"])
            want = np.array([[1000.0 * (i + 1) + c for c in cols] for i in range(rows)])
            if d.shape != want.shape or not np.array_equal(np.rint(d), want):
                raise Div("piece_data", {"piece": k, "file_channels": [p["lo"], p["hi"]], "rows": rows, "ids": want.tolist()},
                          {"shape": list(d.shape), "ids": np.rint(d).tolist() if d.size < 200 else "..."})
            # the piece as a Frame (before it is ever written): same channels, registered at the same sky frequencies
            try:
                pf = stg.Frame(waterfall=wf)
            except Exception as e:
                raise Div("piece_as_frame.exception", "a frame", "%s: %s" % (type(e).__name__, str(e)[:120]))
            lo_w = int(round((pf.fmin - g["f0"]) / g["df"]))
            if pf.fchans != F or lo_w != min(cols) or bool(pf.ascending) != asc or \
                    not np.array_equal(np.rint(pf.data), np.array([[1000.0 * (i + 1) + c for c in sorted(cols)] for i in range(rows)])):
                raise Div("piece_as_frame", {"piece": k, "lowest_world_channel": min(cols), "fchans": F, "ascending": asc},
                          {"lowest_world_channel": lo_w, "fchans": int(pf.fchans), "ascending": bool(pf.ascending)})
            h = wf.header
            foff = float(h["foff"]) * 1e6
            f_first = float(wf.container.f_stop if foff < 0 else wf.container.f_start) * 1e6
            want_first = g["f0"] + cols[0] * g["df"]
            if int(wf.container.selection_shape[2]) != F or abs(f_first - want_first) > 1e-3 * g["df"] + 4 * np.spacing(want_first) \
                    or (foff > 0) != asc:
                raise Div("piece_frequencies", {"piece": k, "first_channel_hz": want_first, "nchans": F},
                          {"first_channel_hz": f_first, "nchans": int(wf.container.selection_shape[2])})
        # the on-disk variant writes one loadable file per piece
        outdir = os.path.join(workdir, "pieces")
        with contextlib.redirect_stdout(io.StringIO()):
            fns = split_utils.split_fil(path, outdir, F, tchans=tsel, f_shift=s)
        if len(fns) != len(pieces):
            raise Div("split_fil.count", len(pieces), len(fns))
        for k, (fn, p) in enumerate(zip(fns, pieces)):
            sub = stg.Frame(waterfall=str(fn))
            cols = sorted(file_cols(p["lo"], p["hi"]))
            want = np.array([[1000.0 * (i + 1) + c for c in cols] for i in range(rows)])
            lo = int(round((sub.fmin - g["f0"]) / g["df"]))
            if sub.data.shape != want.shape or not np.array_equal(np.rint(sub.data), want) or lo != cols[0] or bool(sub.ascending) != asc:
                raise Div("split_fil.piece", {"piece": k, "lowest_world_channel": cols[0], "shape": list(want.shape)},
                          {"lowest_world_channel": lo, "shape": list(sub.data.shape)})
    finally:
        if own and os.path.exists(path):
            os.remove(path)
        # the output directory is deliberately re-used by later jobs (a second split into the same directory must
        # overwrite earlier pieces of the same name); it is removed with the check's scratch directory


LAYOUTS = ("contiguous", "column_view", "row_strided", "fortran", "transposed_view", "float32")


def laid_out(H, W, layout):
    """The same H x W values 0..H*W-1 in different memory layouts (views of larger arrays, strides, orders, dtypes)."""
    base = np.arange(H * W, dtype=float).reshape(H, W)
    if layout == "column_view":
        big = np.full((H, W + 5), -7.0)
        big[:, 3:3 + W] = base
        return big[:, 3:3 + W]
    if layout == "row_strided":
        big = np.full((2 * H, W), -7.0)
        big[::2] = base
        return big[::2]
    if layout == "fortran":
        return np.asfortranarray(base)
    if layout == "transposed_view":
        return np.ascontiguousarray(base.T).T
    if layout == "float32":
        return base.astype(np.float32)
    return base


def check_array(rec, layout="contiguous"):
    job, tiles = rec["job"], rec["tiles"]
    H, W = job["H"], job["W"]
    data = laid_out(H, W, layout)
    keep = data.copy()
    try:
        got = split_utils.split_array(data, f_sample_num=job["tw"], t_sample_num=job["th"], f_shift=job["sw"], t_shift=job["sh"],
                                      f_trim=job["ftrim"], t_trim=job["ttrim"])
    except Exception as e:
        raise Div("split_array.exception", "ok", "%s: %s" % (type(e).__name__, str(e)[:120]))
    if len(got) != len(tiles):
        raise Div("tile_count", len(tiles), len(got))
    for k, t in enumerate(tiles):
        want = data[t["y0"]:t["y1"], t["x0"]:t["x1"]]
        g = np.asarray(got[k], dtype=float)
        if g.shape != want.shape or not np.array_equal(g, want):
            raise Div("tile", {"index": k, "tile": t, "layout": layout}, {"shape": list(g.shape)})
    if not np.array_equal(data, keep):
        raise Div("input_mutated", "input array unchanged", "changed")
    # defaults: shifts default to the tile sizes, tile sizes to the full extent
    if job["sh"] == job["th"] and job["sw"] == job["tw"]:
        try:
            got2 = split_utils.split_array(data, f_sample_num=job["tw"], t_sample_num=job["th"], f_trim=job["ftrim"], t_trim=job["ttrim"])
        except Exception as e:
            raise Div("split_array.exception", "ok", "%s: %s" % (type(e).__name__, str(e)[:120]))
        if len(got2) != len(tiles) or any(np.asarray(a).shape != np.asarray(b).shape or not np.array_equal(np.asarray(a, dtype=float), np.asarray(b, dtype=float))
                                          for a, b in zip(got2, got)):
            raise Div("default_shifts", "same tiles as explicit shifts", "different")
