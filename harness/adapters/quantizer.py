"""Adapter binding Quantizer.tla to setigen.voltage.quantization."""
import numpy as np

from setigen.voltage import quantization as qz

XS = [-100000, -40, -7, -3, -2, -1, 0, 1, 2, 3, 5, 6, 40, 100000]
FW = 2 * np.sqrt(2 * np.log(2))


def mean_of(c, part):
    return 10 * (c + 1) if part == 1 else -7 * (c + 1)


def dev_of(s, part):
    return s if part == 1 else 2 * s


def data_of(m, s):
    if s == 0:
        return np.full(len(XS) + 2, float(m))
    xs = [1e30 if x == 100000 else (-1e30 if x == -100000 else float(x)) for x in XS]
    return np.array([m - s, m + s] + xs, dtype=float)


class Div(Exception):
    def __init__(self, field, expected, observed, step):
        Exception.__init__(self, field)
        self.field, self.expected, self.observed, self.step = field, expected, observed, step


def _check_out(vals, exp, field, step):
    vals = np.asarray(vals)
    if not np.all(np.isfinite(vals.astype(float))):
        raise Div(field + ".finite", "finite", vals.tolist(), step)
    if not np.all(vals == np.round(vals)):
        raise Div(field + ".integer", "integers", vals.tolist(), step)
    if len(vals) != len(exp):
        raise Div(field + ".len", len(exp), len(vals), step)
    for j, (v, e) in enumerate(zip(vals.tolist(), exp)):
        if int(v) not in e:
            raise Div(field, {"index": j, "allowed": e, "all_expected": exp}, {"value": v, "all": vals.tolist()}, step)


def replay(beh, variant=0):
    cfg, steps = beh["cfg"], beh["steps"]
    kw = dict(target_mean=cfg["tm"] / 4.0, target_fwhm=cfg["K"] * FW, num_bits=cfg["bits"],
              stats_calc_period=cfg["period"], stats_calc_num_samples=2)
    obj = qz.ComplexQuantizer(**kw) if cfg["cplx"] else qz.RealQuantizer(**kw)
    try:
        for k, step in enumerate(steps):
            act = step["act"]
            if act["name"] == "Done":
                break
            if act["name"] == "Reset":
                obj._reset_cache()
            else:
                c, s, custom, pair = act["call"], act["s"], act["custom"], act["pair"]
                re = data_of(mean_of(c, 1), dev_of(s, 1))
                try:
                    if cfg["cplx"]:
                        im = data_of(mean_of(c, 2), dev_of(s, 2))
                        x = re + 1j * im
                        if custom == 0:
                            out = obj.quantize(x) if variant % 2 == 0 else obj.quantize(x, custom_stds=None)
                        elif pair:
                            cs = [custom, 2 * custom]
                            out = obj.quantize(x, custom_stds=cs if variant % 2 == 0 else np.array(cs, dtype=float))
                        else:
                            out = obj.quantize(x, custom_stds=custom)
                        _check_out(np.real(out), step["out"][0], "out.real", k)
                        _check_out(np.imag(out), step["out"][1], "out.imag", k)
                    else:
                        fn = obj.quantize if variant % 2 == 0 else obj.digitize
                        out = fn(re) if custom == 0 else fn(re, custom_std=custom)
                        if np.iscomplexobj(out):
                            raise Div("out.dtype", "real", str(out.dtype), k)
                        _check_out(out, step["out"][0], "out.real", k)
                except Div:
                    raise
                except Exception as e:
                    raise Div("exception", "ok", "%s: %s" % (type(e).__name__, e), k)
            # cached statistics and refresh counter
            parts = [obj.quantizer_r, obj.quantizer_i] if cfg["cplx"] else [obj]
            for pi, part in enumerate(parts):
                e = step["st"][pi]
                idx = getattr(part, "stats_calc_indices", None)
                if idx is not None and idx != e["idx"]:
                    raise Div("st.idx[%d]" % pi, e["idx"], idx, k)
                cache = getattr(part, "stats_cache", None)
                if cache is not None:
                    if e["set"]:
                        if cache[0] is None or float(cache[0]) != e["m"] or float(cache[1]) != e["s"]:
                            raise Div("st.cache[%d]" % pi, [e["m"], e["s"]], [cache[0], cache[1]], k)
                    elif cache[0] is not None:
                        raise Div("st.cache[%d]" % pi, None, [cache[0], cache[1]], k)
    except Div as d:
        return d
    return None


def standalone(cfg_space, rng):
    """quantize_real / quantize_complex (no object): statistics from the leading samples of the same array."""
    out = []
    for bits in cfg_space["bits"]:
        for K in (1, 3):
            for tm4 in (0, 4, -8, 2, -15, 9):          # target means in quarters, as in Quantizer.tla
                tm = tm4 / 4.0
                for s in (0, 2, 4):
                    m = int(rng.integers(-20, 20))
                    x = data_of(m, s)
                    lo, hi = -(2 ** (bits - 1)), 2 ** (bits - 1) - 1
                    exp = []
                    for v in ([m - s, m + s] + XS if s else [m] * (len(XS) + 2)):
                        if s == 0:
                            f, r = tm4 // 4, tm4 % 4
                            e = {f} if 2 * r < 4 else ({f + 1} if 2 * r > 4 else {f, f + 1})
                            e = {min(max(t, lo), hi) for t in e}
                        else:
                            N, d4 = 4 * K * (v - m) + tm4 * s, 4 * s
                            f, r = N // d4, N % d4
                            e = {f} if 2 * r < d4 else ({f + 1} if 2 * r > d4 else {f, f + 1})
                            e = {min(max(t, lo), hi) for t in e}
                        exp.append(sorted(e))
                    got = qz.quantize_real(x, target_mean=tm, target_std=K, num_bits=bits, stats_calc_num_samples=2)
                    try:
                        _check_out(got, exp, "quantize_real", 0)
                    except Div as d:
                        out.append((dict(bits=bits, K=K, tm=tm, s=s, m=m), d))
    return out
