"""Adapter binding InputMode.tla to RawVoltageBackend.from_data / record (C14).

The input recording is written by the harness's own GUPPI writer with sample-identity content (random integers over
the full range of the bit depth).  The real backend is observed through wrappers on public/pipeline methods
(_read_next_block, the requantisers' RealQuantizer.quantize) and through its output files."""
import collections
import hashlib
import math
import os

import numpy as np

from setigen.voltage import antenna as v_antenna
from setigen.voltage import backend as v_backend
from setigen.voltage import polyphase_filterbank as v_pfb
from setigen.voltage import quantization as v_q

from .. import guppi, refpipe


class Div(Exception):
    def __init__(self, cls, field, expected, observed):
        Exception.__init__(self, field)
        self.cls, self.field, self.expected, self.observed = cls, field, expected, observed


TAPS, B, RATE = 2, 8, 1024.0


def derive(cfg, seed):
    h = int(hashlib.sha1(("%s|%d" % (sorted(cfg.items()), seed)).encode()).hexdigest(), 16)
    nch = 1 + h % 3
    return {"bits": [8, 4][(h // 3) % 2], "pols": 1 + (h // 6) % 2, "nant": 1 + (h // 12) % 2, "nch": nch,
            "start_chan": (h // 24) % (B // 2 - nch + 1), "dio": ["absent", "zero", "one"][(h // 96) % 3],
            "extra": (h // 288) % 34, "U": 1 + (h // 9792) % 3, "tone": (h // 29376) % 3 != 0,
            "ascending": bool((h // 88128) % 2), "seed": 7 + h % 9973,
            "aligned": (h // 176256) % 5 == 0,      # DIRECTIO header that is already a multiple of 512 bytes (cards % 32 == 0)
            "big": (h // 881280) % 12 == 0,        # more than 10000 time samples per block
            "ragged": (h // 10575360) % 3 == 0,    # windows per block not a multiple of num_subblocks: the last sub-block is shorter
            "blank": (h // 31726080) % 4 == 0}     # the second input block (the first, if there is only one) is all zeros (a dropped block)


def write_input(cfg, inst, workdir):
    if inst["big"]:
        inst["U"] = 5200 // cfg["nsub"] + 1
    if inst["aligned"]:
        inst["dio"] = "one"
    # windows per block W and windows per regular sub-block w (Backend.tla: w = ceil(W / num_subblocks), the count of
    # sub-blocks is ceil(W / w)); ragged: W = w (nsub - 1) + (w - 1) with w >= nsub keeps the count at nsub
    if inst.get("ragged") and cfg["nsub"] > 1 and not inst["big"]:
        w = max(inst["U"] + 1, cfg["nsub"])
        W = w * (cfg["nsub"] - 1) + (w - 1)
    else:
        inst["ragged"] = False
        w = inst["U"]
        W = cfg["nsub"] * w
    inst["sub_rows"] = TAPS * w
    T = TAPS * W
    bps = 2 * inst["pols"] * inst["bits"] // 8
    obsnchan = inst["nch"] * inst["nant"]
    blocsize = obsnchan * T * bps
    chan_bw = (1 if inst["ascending"] else -1) * RATE / B
    hdr = collections.OrderedDict()
    hdr["BACKEND"] = "GUPPI"
    hdr["TELESCOP"] = "GBT"
    hdr["OBSERVER"] = "someone"
    hdr["SRC_NAME"] = "VOYAGER"
    hdr["NBITS"] = inst["bits"]
    hdr["NPOL"] = 4 if inst["pols"] == 2 else 1
    hdr["OBSNCHAN"] = obsnchan
    if inst["nant"] > 1:
        hdr["NANTS"] = inst["nant"]
    hdr["BLOCSIZE"] = blocsize
    hdr["TBIN"] = B / RATE
    hdr["CHAN_BW"] = chan_bw * 1e-6
    hdr["OBSBW"] = chan_bw * inst["nch"] * 1e-6
    hdr["OBSFREQ"] = (inst["start_chan"] + (inst["nch"] - 1) / 2.0) * chan_bw * 1e-6
    hdr["SCANLEN"] = 1.0
    hdr["PKTIDX"] = 0
    if inst["dio"] == "zero":
        hdr["DIRECTIO"] = 0
    elif inst["dio"] == "one":
        hdr["DIRECTIO"] = 1
    if inst["aligned"]:
        inst["extra"] = (32 - (len(hdr) + 1) % 32) % 32
    for k in range(inst["extra"]):
        hdr["FILL%03d" % k] = k
    rng = np.random.default_rng(inst["seed"])
    lo, hi = -(2 ** (inst["bits"] - 1)), 2 ** (inst["bits"] - 1) - 1
    truth = []
    paths = []
    stem = os.path.join(workdir, "inp")
    for i in range(cfg["nfiles"]):
        nb = cfg["last"] if i == cfg["nfiles"] - 1 else cfg["bpf"]
        blocks = []
        for j in range(nb):
            v = rng.integers(lo, hi + 1, size=(obsnchan, T, inst["pols"])) + 1j * rng.integers(lo, hi + 1, size=(obsnchan, T, inst["pols"]))
            # make sure the extremes are present
            v[0, 0, 0] = lo + 1j * lo
            v[-1, -1, -1] = hi + 1j * lo
            if inst.get("blank") and len(truth) == (1 if cfg["bpf"] * (cfg["nfiles"] - 1) + cfg["last"] > 1 else 0):
                v = np.zeros_like(v)
            h = collections.OrderedDict(hdr)
            h["PKTIDX"] = (i * cfg["bpf"] + j) * T
            blocks.append((h, guppi.encode_block(v, inst["bits"])))
            truth.append(v)
        p = "%s.%04d.raw" % (stem, i)
        guppi.write_file(p, blocks)
        paths.append(p)
    return stem, paths, truth, T, blocsize, hdr


def run_config(exp, seed, workdir):
    """exp: record emitted by InputMode_Gen.  Returns list of Div."""
    cfg = exp["cfg"]
    inst = derive(cfg, seed)
    divs = []
    stem, paths, truth, T, blocsize, in_hdr = write_input(cfg, inst, workdir)
    try:
        kw = dict(sample_rate=RATE, fch1=0, ascending=inst["ascending"], num_pols=inst["pols"], seed=inst["seed"])
        if inst["nant"] == 1:
            src = v_antenna.Antenna(**kw)
            streams = src.streams
        else:
            src = v_antenna.MultiAntennaArray(num_antennas=inst["nant"], delays=[0] * inst["nant"], **kw)
            streams = [s for a in src.antennas for s in a.streams]
        if inst["tone"]:
            for k, s in enumerate(streams):
                s.add_constant_signal(f_start=(inst["start_chan"] + 0.3) * RATE / B, drift_rate=0, level=0.2 + 0.05 * k)
        fb = v_pfb.PolyphaseFilterbank(num_taps=TAPS, num_branches=B)
        lazy = inst["extra"] % 2 == 0          # half of the cases leave the unit-noise estimate to the backend (lazy path)
        if not lazy:
            fb.estimate_channelized_stds(factor=300, seed=3)
            base = np.array(fb.channelized_stds, dtype=float).copy()
        dig = v_q.RealQuantizer(target_fwhm=32, num_bits=8)
        try:
            be = v_backend.RawVoltageBackend.from_data(stem, src, digitizer=dig, filterbank=fb, start_chan=inst["start_chan"],
                                                       num_subblocks=cfg["nsub"])
        except Exception as e:
            raise Div("C14", "from_data", "backend", "%s: %s" % (type(e).__name__, e))
        in_blocks = cfg["bpf"] * (cfg["nfiles"] - 1) + cfg["last"]
        if be.input_num_blocks != in_blocks or be.blocks_per_file != cfg["bpf"]:
            raise Div("C14", "input_num_blocks/blocks_per_file", [in_blocks, cfg["bpf"]], [be.input_num_blocks, be.blocks_per_file])
        if (be.block_size, be.num_bits, be.num_chans, be.num_pols, be.num_antennas) != (blocsize, inst["bits"], inst["nch"], inst["pols"], inst["nant"]):
            raise Div("C14", "framing_params", [blocsize, inst["bits"], inst["nch"], inst["pols"], inst["nant"]],
                      [be.block_size, be.num_bits, be.num_chans, be.num_pols, be.num_antennas])
        # observation wrappers
        decoded = []
        orig_read = be._read_next_block

        def read_wrap():
            v = orig_read()
            decoded.append(np.array(v, copy=True))
            return v
        be._read_next_block = read_wrap
        calls = collections.defaultdict(list)
        for a in range(inst["nant"]):
            for p in range(inst["pols"]):
                for comp, rq in (("r", be.requantizer[a][p].quantizer_r), ("i", be.requantizer[a][p].quantizer_i)):
                    def mk(rq, key):
                        orig = rq.quantize

                        def wrapped(voltages, custom_std=None):
                            out = orig(voltages, custom_std=custom_std)
                            calls[key].append({"custom": None if custom_std is None else float(custom_std),
                                               "tm": float(rq.target_mean), "ts": float(rq.target_std),
                                               "mean": float(rq.stats_cache[0]), "std": float(rq.stats_cache[1]),
                                               "x": np.array(voltages, copy=True), "y": np.array(out, copy=True)})
                            return out
                        rq.quantize = wrapped
                    mk(rq, (a, p, comp))
        # the twin antenna supplies the reference for the synthetic part; it lives across recordings like the real one
        twin_kw = dict(kw)
        if inst["nant"] == 1:
            twin = v_antenna.Antenna(**twin_kw)
            tstreams = twin.streams
        else:
            twin = v_antenna.MultiAntennaArray(num_antennas=inst["nant"], delays=[0] * inst["nant"], **twin_kw)
            tstreams = [st for a_ in twin.antennas for st in a_.streams]
        if inst["tone"]:
            for k_, st in enumerate(tstreams):
                st.add_constant_signal(f_start=(inst["start_chan"] + 0.3) * RATE / B, drift_rate=0, level=0.2 + 0.05 * k_)
        twin_obj = [twin]
        for ridx, rc in enumerate(exp["recs"]):
            del decoded[:]
            calls.clear()
            out_stem = os.path.join(workdir, "out")
            if ridx == 0 and exp.get("aborted"):
                # an interrupted first attempt: the voltage source raises on its second request; record() must propagate it
                # and the recording judged below must be unaffected (it starts from the first input block again)
                class SourceFailure(Exception):
                    pass
                served = []
                orig_get = src.get_samples

                def failing(n):
                    if len(served) == 1:
                        raise SourceFailure("the voltage source fails on its second request")
                    served.append(int(n))
                    return orig_get(n)
                src.get_samples = failing
                interrupted = False
                try:
                    be.record(out_stem, length_mode="num_blocks", digitize=rc["digitize"], verbose=False, header_dict={},
                              **({} if cfg["req"] == 0 else {"num_blocks": cfg["req"]}))
                except SourceFailure:
                    interrupted = True
                except Exception as e:
                    raise Div("C14|C12", "source_failure_masked", "SourceFailure", "%s: %s" % (type(e).__name__, str(e)[:150]))
                finally:
                    src.get_samples = orig_get
                # the twin follows the real source through the attempt (interrupted or, for one-request recordings, complete)
                twin_obj[0].reset_start()
                if served:
                    twin_obj[0].get_samples(sum(served))
                del decoded[:]
                calls.clear()
                for fn in os.listdir(workdir):
                    if fn.startswith("out."):
                        os.remove(os.path.join(workdir, fn))
                inst["interrupted_first_attempt"] = interrupted
            try:
                if cfg["req"] == 0:
                    be.record(out_stem, length_mode="num_blocks", digitize=rc["digitize"], verbose=False, header_dict={})
                else:
                    be.record(out_stem, num_blocks=cfg["req"], length_mode="num_blocks", digitize=rc["digitize"], verbose=False,
                              header_dict={})
            except Exception as e:
                raise Div("C14", "record", "ok", "%s: %s" % (type(e).__name__, str(e)[:200]))
            nb = rc["numBlocks"]
            # 1. length clamp and accounting
            if be.num_blocks != nb:
                raise Div("C14|C20", "num_blocks", nb, be.num_blocks)
            tpb = T * B / RATE
            if abs(be.obs_length - nb * tpb) > 1e-12 * nb * tpb or be.total_obs_num_samples != nb * T * B:
                raise Div("C14|C20", "obs_length/total_obs_num_samples", [nb * tpb, nb * T * B], [be.obs_length, be.total_obs_num_samples])
            # 2. decode of every input block consumed, in order
            if len(decoded) != len(rc["reads"]):
                raise Div("C14", "reads.count", len(rc["reads"]), len(decoded))
            for k, rd in enumerate(rc["reads"]):
                want = truth[rd["file"] * cfg["bpf"] + rd["index"]]                     # [obsnchan, T, pols]
                want2 = want.reshape(want.shape[0], T * inst["pols"])                   # library layout: column = t*pols + pol
                if decoded[k].shape != want2.shape or not np.array_equal(decoded[k], want2):
                    bad = np.argwhere(decoded[k] != want2)[:3].tolist() if decoded[k].shape == want2.shape else "shape %s" % (decoded[k].shape,)
                    raise Div("C14", "decode", {"block": k, "file": rd["file"], "index": rd["index"]}, {"first_wrong": bad})
            # 3. output framing
            names = sorted(fn for fn in os.listdir(workdir) if fn.startswith("out."))
            out_blocks = []
            for i, fn in enumerate(names):
                try:
                    blocks = guppi.parse_file(os.path.join(workdir, fn))
                except guppi.FramingError as e:
                    raise Div("C14|C04", "out.framing", "well-formed", str(e))
                out_blocks += blocks
            if len(out_blocks) != nb:
                raise Div("C14", "out.blocks", nb, len(out_blocks))
            for blk in out_blocks:
                h = blk["hdr"]
                got = (h.get("BLOCSIZE"), h.get("NBITS"), h.get("OBSNCHAN"), h.get("NANTS", 1))
                want = (blocsize, inst["bits"], inst["nch"] * inst["nant"], inst["nant"])
                if got != want:
                    raise Div("C14", "out.header", list(want), list(got))
                if abs(float(h.get("SCANLEN")) - nb * tpb) > 1e-9 * nb * tpb:
                    raise Div("C14|C20", "out.SCANLEN", nb * tpb, h.get("SCANLEN"))
            # 4. stationary gain: the custom deviation handed to the requantiser at every sub-block of every block
            tstd = dig.target_std
            if lazy:
                base = np.array(be.filterbank[0][0].channelized_stds, dtype=float).copy()
                fresh = v_pfb.PolyphaseFilterbank(num_taps=TAPS, num_branches=B).estimate_channelized_stds(factor=4000, seed=9)
                if base.shape != (2,) or not np.all(np.abs(base / fresh - 1) < 0.08):
                    raise Div("C14", "channelized_stds", fresh.tolist(), base.tolist())
            # the synthetic part entering the first requantisation is the PFB of the (digitised) antenna stream: one
            # continuous timeline over sub-blocks and blocks
            twin_obj[0].reset_start()
            tv = twin_obj[0].get_samples((nb * T + TAPS) * B) if nb > 0 else None
            gains = []
            for a in range(inst["nant"]):
                for p in range(inst["pols"]):
                    for ci, comp in enumerate(("r", "i")):
                        seq = calls[(a, p, comp)]
                        if len(seq) != 2 * nb * cfg["nsub"]:
                            raise Div("C14", "requantize.calls", 2 * nb * cfg["nsub"], len(seq))
                        for k in range(0, len(seq), 2):
                            c1, c2 = seq[k], seq[k + 1]
                            if c1["custom"] is None or c2["custom"] is not None:
                                raise Div("C14", "requantize.order", "custom then plain", [c1["custom"], c2["custom"]])
                            b_ap = np.array(be.filterbank[a][p].channelized_stds, dtype=float) if lazy else base
                            power = math.log(c1["custom"] / b_ap[ci]) / math.log(tstd)
                            want_pow = rc["gains"][k // 2]
                            if abs(power - want_pow) > 1e-6:
                                raise Div("C14", "gain", {"subblock_call": k // 2, "power_of_target_std": want_pow,
                                                          "custom_std": float(b_ap[ci] * tstd ** want_pow)},
                                          {"power_of_target_std": round(power, 4), "custom_std": c1["custom"]})
                            if c1["tm"] != 0:
                                raise Div("C14", "synthetic.target_mean", 0, c1["tm"])
                            if ci == 0 and (not rc["digitize"] or not inst["tone"]):
                                rows_ = c1["x"].shape[0]
                                if rows_ == 0:
                                    raise Div("C14|C02|C20", "empty_subblock", "a sub-block of at least one window",
                                              {"subblock_call": k // 2, "rows": 0})
                                n0 = ((k // 2) // cfg["nsub"]) * T + ((k // 2) % cfg["nsub"]) * inst["sub_rows"]
                                if rc["digitize"]:
                                    want_syn = np.zeros((rows_, inst["nch"]))
                                else:
                                    ref_all = refpipe.pfb_ref(np.asarray(tv[a][p], dtype=float), TAPS, B)
                                    want_syn = np.real(ref_all[n0:n0 + rows_, inst["start_chan"]:inst["start_chan"] + inst["nch"]])
                                if c1["x"].shape != want_syn.shape or np.max(np.abs(c1["x"] - want_syn)) > 1e-9:
                                    raise Div("C14", "synthetic_spectra", "PFB of the continuous antenna stream (rows %d..)" % n0,
                                              {"max_abs_diff": float(np.max(np.abs(c1["x"] - want_syn))) if c1["x"].shape == want_syn.shape else "shape",
                                               "subblock_call": k // 2})
                            # output block = requantisation of (input + scaled synthetic), target statistics = the input block's
                            blk_i = (k // 2) // cfg["nsub"]
                            sb = (k // 2) % cfg["nsub"]
                            rd = rc["reads"][blk_i]
                            inp = truth[rd["file"] * cfg["bpf"] + rd["index"]][a * inst["nch"]:(a + 1) * inst["nch"], :, p]
                            part = np.real(inp) if comp == "r" else np.imag(inp)
                            if abs(c2["tm"] - part.mean()) > 1e-9 or abs(c2["ts"] - part.std()) > 1e-9:
                                raise Div("C14", "target_stats", [float(part.mean()), float(part.std())], [c2["tm"], c2["ts"]])
                            rows = c1["y"].shape[0]
                            t0 = sb * inst["sub_rows"]
                            if rows != min(inst["sub_rows"], T - t0):
                                raise Div("C14|C02", "subblock_rows", min(inst["sub_rows"], T - t0), rows)
                            want_x2 = c1["y"] + part[:, t0:t0 + rows].T
                            if c2["x"].shape != want_x2.shape or not np.array_equal(c2["x"], want_x2):
                                raise Div("C14", "sum_input_plus_synthetic", "input block slice + scaled synthetic", "mismatch at sub-block %d" % sb)
            # 5. nothing injected, one sub-block: the output reproduces the input bit for bit
            # (only where the requantiser's own statistics -- from the first 10000 samples by default -- are taken from the
            # whole block, as the target statistics are; beyond that size the identity is not implied by the statement)
            if not inst["tone"] and cfg["nsub"] == 1 and not inst["big"]:
                for k, blk in enumerate(out_blocks):
                    rd = rc["reads"][k]
                    want = guppi.encode_block(truth[rd["file"] * cfg["bpf"] + rd["index"]], inst["bits"])
                    if blk["data"] != want:
                        raise Div("C14", "identity_without_signal", "output bytes = input bytes", "block %d differs" % k)
            # 6. the file bytes are what the last requantisation returned (standard layout)
            for a in range(inst["nant"]):
                for p in range(inst["pols"]):
                    seq_r, seq_i = calls[(a, p, "r")], calls[(a, p, "i")]
                    for blk_i in range(nb):
                        rows_r = [seq_r[2 * (blk_i * cfg["nsub"] + sb) + 1]["y"] for sb in range(cfg["nsub"])]
                        rows_i = [seq_i[2 * (blk_i * cfg["nsub"] + sb) + 1]["y"] for sb in range(cfg["nsub"])]
                        v = np.concatenate(rows_r, axis=0) + 1j * np.concatenate(rows_i, axis=0)      # [T, nch]
                        got = guppi.decode_block(out_blocks[blk_i]["data"], inst["nch"] * inst["nant"], inst["pols"], inst["bits"])
                        if not np.array_equal(got[a * inst["nch"]:(a + 1) * inst["nch"], :, p], v.T):
                            raise Div("C14|C02", "out.bytes", "requantised values in standard layout", "block %d ant %d pol %d" % (blk_i, a, p))
            for fn in os.listdir(workdir):
                if fn.startswith("out."):
                    os.remove(os.path.join(workdir, fn))
    except Div as d:
        divs.append(d)
    finally:
        for fn in os.listdir(workdir):
            os.remove(os.path.join(workdir, fn))
    return divs, inst
