"""Adapter binding Cadence.tla to setigen.Cadence / OrderedCadence.

A behaviour (list of {act, res, obs} records printed by TLC) is replayed on real
objects; after every action the projection of the real objects is compared with
the TLC-computed post-state."""
import numpy as np

import setigen as stg

T_BASE = 1024.0          # real start time = T_BASE + model t0 (exact in binary)
NONE_V = 99

_SPEC = {
    #       fchans tchans df  dt  fch1  ascending
    "a":   (8, 2, 1.0, 1.0, 100.0, True),
    "b":   (8, 3, 1.0, 1.0, 100.0, True),
    "c":   (8, 2, 1.0, 1.0, 100.0, True),
    "d":   (8, 4, 1.0, 1.0, 107.0, False),     # same band, opposite orientation
    "xdf": (8, 2, 2.0, 1.0, 100.0, True),
    "xdt": (8, 2, 1.0, 2.0, 100.0, True),
    "xfc": (4, 2, 1.0, 1.0, 100.0, True),
    "xfm": (8, 2, 1.0, 1.0, 101.0, True),
    "ydf": (8, 2, 1.0 + 2.0 ** -17, 1.0, 100.0, True),     # near misses: relative difference 2^-17
    "ydt": (8, 2, 1.0, 1.0 + 2.0 ** -17, 100.0, True),
    "yfm": (8, 2, 1.0, 1.0, 100.0 + 2.0 ** -10, True),
}
TK = 131072.0
_T0 = {"a": 0, "b": 5, "c": 16, "d": 9, "xdf": 1, "xdt": 1, "xfc": 1, "xfm": 1, "ydf": 1, "ydt": 1, "yfm": 1}


class NotAFrame(object):
    def __repr__(self):
        return "<not a frame>"


class Pool(object):
    def __init__(self):
        self.frames = {}
        for k, (fc, tc, df, dt, fch1, asc) in _SPEC.items():
            if k in ("b", "c", "xdf"):
                # frames a user gets from arrays (Frame.from_data without metadata): their own metadata, like any frame's
                fr = stg.Frame.from_data(df, dt, fch1, asc, np.zeros((tc, fc)), seed=1)
                fr.t_start = T_BASE + _T0[k]
                self.frames[k] = fr
            else:
                self.frames[k] = stg.Frame(fchans=fc, tchans=tc, df=df, dt=dt, fch1=fch1, ascending=asc,
                                           t_start=T_BASE + _T0[k], seed=1)
        self.obj = NotAFrame()
        self.name = {id(f): k for k, f in self.frames.items()}
        self.name[id(self.obj)] = "obj"
        self.ts0 = {k: f.ts.copy() for k, f in self.frames.items()}

    def reset(self):
        for k, f in self.frames.items():
            f.metadata.pop("order_label", None)
            f.t_start = T_BASE + _T0[k]
            f.ts = self.ts0[k].copy()

    def get(self, k):
        return self.obj if k == "obj" else self.frames[k]

    def names(self, seq):
        return [self.name.get(id(x), "?%r" % (x,)) for x in seq]


def _members(cad):
    return [cad[i] for i in range(len(cad))]


def project(pool, cad, order):
    """Project the real objects onto the spec's Obs record."""
    if cad is None:
        ids = []
    else:
        ids = pool.names(_members(cad))
    labels = {k: f.metadata.get("order_label", "-") for k, f in pool.frames.items()}
    t0 = {}
    for k, f in pool.frames.items():
        t0[k] = _num((f.t_start - T_BASE) * TK)
    if cad is None or len(cad) == 0:
        agg = {"empty": True}
        if cad is not None:
            # aggregate properties of an empty cadence are None
            for attr in ("tchans", "obs_range", "t_start"):
                if getattr(cad, attr) is not None:
                    agg["bad_" + attr] = repr(getattr(cad, attr))
    else:
        sl = [float(x) * TK for x in cad.slew_times]
        agg = {"empty": False, "tchans": int(cad.tchans), "obsRange": _num(cad.obs_range * TK),
               "tstart": _num((cad.t_start - T_BASE) * TK), "slews": [_num(x) for x in sl]}
    return {"ids": ids, "labels": labels, "agg": agg, "t0": t0,
            "order": list(getattr(cad, "order", order)) if cad is not None and hasattr(cad, "order") else order}


def _num(x):
    x = float(x)
    return int(x) if x.is_integer() else x


def _idx(v):
    return None if v == NONE_V else v


def apply(pool, state, act, variant=0):
    """Execute one spec action on the real objects.  Returns (status, value-dict)."""
    cad = state["cad"]
    name = act["name"]
    val = {}
    try:
        if name == "New":
            lst = [pool.get(k) for k in act["list"]]
            if act["ordered"]:
                cad = stg.OrderedCadence(frame_list=lst, order="ABACAD")
            else:
                cad = stg.Cadence(frame_list=lst)
            state["cad"] = cad
        elif name == "Insert":
            cad.insert(act["i"], pool.get(act["v"]))
        elif name == "Append":
            cad.append(pool.get(act["v"]))
        elif name == "Extend":
            lst = [pool.get(k) for k in act["list"]]
            cad.extend(lst if variant % 2 == 0 else iter(lst))
        elif name == "IAdd":
            cad += [pool.get(k) for k in act["list"]]
            if cad is not state["cad"]:
                return "ok", {"bad_iadd_identity": True}
        elif name == "SetItem":
            cad[act["i"]] = pool.get(act["v"])
        elif name == "DelItem":
            del cad[act["i"]]
        elif name == "DelSlice":
            del cad[slice(_idx(act["lo"]), _idx(act["hi"]), act["step"])]
        elif name == "Pop":
            r = cad.pop() if act["i"] == NONE_V else cad.pop(act["i"])
            val["val"] = pool.names([r])[0]
        elif name == "Remove":
            cad.remove(pool.get(act["v"]))
        elif name == "Reverse":
            cad.reverse()
        elif name == "Clear":
            cad.clear()
        elif name == "GetItem":
            r = cad[act["i"]]
            val["val"] = pool.names([r])[0]
        elif name == "GetSlice":
            r = cad[slice(_idx(act["lo"]), _idx(act["hi"]), act["step"])]
            val["ids"] = pool.names(_members(r))
            val["ordered"] = type(r) is stg.OrderedCadence
            val["cls_ok"] = type(r) is type(cad)
        elif name == "GetIdx":
            ix = list(act["list"])
            r = cad[[ix, np.array(ix), tuple(ix)][variant % 3]]
            val["ids"] = pool.names(_members(r))
            val["ordered"] = type(r) is stg.OrderedCadence
            val["cls_ok"] = type(r) is type(cad)
        elif name == "GetMask":
            m = [bool(x) for x in act["mask"]]
            r = cad[m if variant % 2 == 0 else np.array(m)]
            val["ids"] = pool.names(_members(r))
            val["ordered"] = type(r) is stg.OrderedCadence
            val["cls_ok"] = type(r) is type(cad)
        elif name == "ByLabel":
            r = cad.by_label(act["label"])
            val["ids"] = pool.names(_members(r))
            val["ordered"] = type(r) is stg.OrderedCadence
            val["cls_ok"] = isinstance(r, stg.Cadence)
        elif name == "SetOrder":
            cad.set_order("".join(act["order"]))
        elif name == "OverwriteTimes":
            cad.t_slew = act["slew"] / TK
            cad.overwrite_times()
        else:
            raise RuntimeError("adapter: unknown action %r" % name)
    except (TypeError, AttributeError, IndexError, ValueError, KeyError) as e:
        return type(e).__name__, {"msg": str(e)[:120]}
    return "ok", val


def replay(pool, beh, variant=0):
    """Replay one behaviour.  Returns None or a dict describing the first divergence."""
    pool.reset()
    state = {"cad": None}
    order = list("ABACAD")
    for k, step in enumerate(beh):
        act, exp_res, exp_obs = step["act"], step["res"], step["obs"]
        st, val = apply(pool, state, act, variant)
        if st != exp_res["st"]:
            return {"step": k, "field": "status", "expected": exp_res["st"], "observed": st, "info": val}
        if st == "ok":
            for key in ("val", "ids", "ordered"):
                if key in exp_res and val.get(key) != exp_res[key]:
                    return {"step": k, "field": "result." + key, "expected": exp_res[key], "observed": val.get(key)}
            if val.get("cls_ok") is False or val.get("bad_iadd_identity"):
                return {"step": k, "field": "result.class", "expected": "same class", "observed": val}
        obs = project(pool, state["cad"], exp_obs["order"])
        for key in ("ids", "labels", "agg", "t0", "order"):
            if obs[key] != exp_obs[key]:
                return {"step": k, "field": "obs." + key, "expected": exp_obs[key], "observed": obs[key]}
    return None
