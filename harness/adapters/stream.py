"""Adapter binding Stream.tla to setigen.voltage Antenna / MultiAntennaArray / DataStream.

Each TLC behaviour is replayed in three instantiations of the same abstract run:
  ident : identity-carrying custom sources (own stream: tick index + tag; background: 10^6*(tick+1) + tag)
          -> decodes which own / background sample every returned voltage is made of, and records the
             time array each source was evaluated on;
  noise : seeded Gaussian noise on every own and background stream -> every returned voltage must equal
          own_draw[on] + bg_draw[bn] exactly, with draws taken from a copy of the stream's generator;
  chirp : add_constant_signal on every own stream -> closed form at t = tick / sample_rate.
"""
import copy

import numpy as np

from setigen.voltage import antenna as v_antenna

RATES = {"dyadic": 1024.0, "bl": 3e9, "odd": 187.5e6}


class Div(Exception):
    def __init__(self, cls, field, expected, observed, step):
        Exception.__init__(self, field)
        self.cls, self.field, self.expected, self.observed, self.step = cls, field, expected, observed, step


def build(cfg, rate, ascending, seed, t_start=0):
    if cfg["kind"] == "antenna":
        src = v_antenna.Antenna(sample_rate=rate, fch1=0, ascending=ascending, num_pols=cfg["pols"],
                                t_start=t_start, seed=seed)
        ants = [src]
    else:
        kw = {}
        if not cfg["omitted"]:
            kw["delays"] = list(cfg["delays"])
        src = v_antenna.MultiAntennaArray(num_antennas=cfg["nant"], sample_rate=rate, fch1=0, ascending=ascending,
                                          num_pols=cfg["pols"], t_start=t_start, seed=seed, **kw)
        ants = src.antennas
    return src, ants


def _tick(t, rate):
    x = t * rate
    r = round(x)
    if abs(x - r) > 1e-6 * max(1.0, abs(x)) and abs(x - r) > 1e-4:
        return x           # off-grid: reported by the comparison
    return int(r)


def project(cfg, src, ants, rate):
    st = {"own": [], "clen": []}
    for a in ants:
        row = []
        for s in a.streams:
            row.append({"clock": _tick(s.t_start, rate), "start": bool(s.start_obs)})
        st["own"].append(row)
        st["clen"].append([(-1 if a.bg_cache[p] is None else len(a.bg_cache[p])) for p in range(cfg["pols"])])
    if cfg["kind"] == "antenna":
        st["aclk"] = [{"clock": _tick(src.t_start, rate), "start": bool(src.start_obs)}]
    else:
        st["bg"] = [{"clock": _tick(s.t_start, rate), "start": bool(s.start_obs)} for s in src.bg_streams]
        st["arr"] = {"clock": _tick(src.t_start, rate), "start": bool(src.start_obs)}
    return st


def compare_state(cfg, exp, obs, step, rngs=None):
    na, npol = cfg["nant"], cfg["pols"]
    for a in range(na):
        for p in range(npol):
            e = exp["own"][a][p]
            o = obs["own"][a][p]
            if e["clock"] != o["clock"] or e["start"] != o["start"]:
                raise Div("C10", "st.own[%d][%d]" % (a, p), {"clock": e["clock"], "start": e["start"]}, o, step)
    if cfg["kind"] == "antenna":
        e, o = exp["aclk"][0], obs["aclk"][0]
        if e["clock"] != o["clock"] or e["start"] != o["start"]:
            raise Div("C10", "st.aclk", e, o, step)
    else:
        for p in range(npol):
            e, o = exp["bg"][p], obs["bg"][p]
            if e["clock"] != o["clock"] or e["start"] != o["start"]:
                raise Div("C15", "st.bg[%d]" % p, {"clock": e["clock"], "start": e["start"]}, o, step)
        e, o = exp["arr"], obs["arr"]
        if e["clock"] != o["clock"] or e["start"] != o["start"]:
            raise Div("C15", "st.arr", e, o, step)
        for a in range(na):
            for p in range(npol):
                if exp["clen"][a][p] != obs["clen"][a][p]:
                    raise Div("C15", "st.cache_len[%d][%d]" % (a, p), exp["clen"][a][p], obs["clen"][a][p], step)


def call(src, ants, cfg, act, rate):
    name = act["name"]
    if name == "GetSamples":
        return src.get_samples(act["n"])
    if name == "SetTime":
        src.set_time(act["t"] / rate)
    elif name == "AddTime":
        src.add_time(act["d"] / rate)
    elif name == "ResetStart":
        src.reset_start()
    elif name == "UpdateNoiseOwn":
        ants[act["a"] - 1].streams[act["p"] - 1].update_noise(stats_calc_num_samples=act["m"])
    elif name == "UpdateNoiseBg":
        src.bg_streams[act["p"] - 1].update_noise(stats_calc_num_samples=act["m"])
    elif name == "Peek":
        ants[act["a"] - 1].streams[act["p"] - 1].get_samples(act["n"])
    elif name == "BadRequest":
        bad = {"negative": -1, "fractional": 2.5}.get(act["kind"], act["n"])
        try:
            src.get_samples(bad)
        except (ValueError, TypeError, AssertionError):
            return None
        raise Div("C15" if cfg["kind"] == "array" else "C10", "bad_request.accepted", "an exception", "returned samples for %r" % (bad,), -1)
    else:
        raise RuntimeError("adapter: unknown action %r" % name)
    return None


def replay(beh, mode, rate_name="dyadic", ascending=True, seed=11, complex_src=False):
    """Replay one behaviour; returns None or a Div."""
    cfg, steps = beh["cfg"], beh["steps"]
    rate = RATES[rate_name]
    try:
        src, ants = build(cfg, rate, ascending, seed, t_start=cfg.get("t0", 0) / rate)
    except Exception as e:  # construction itself is part of C15 (omitted delays)
        return Div("C15" if cfg.get("omitted") else "C10", "construct", "object", "%s: %s" % (type(e).__name__, e), -1)
    npol = cfg["pols"]
    ts_log = []
    refs = {}
    chirp = {}
    if mode == "ident":
        def mk(tag, scale, unit, cplx):
            def f(ts):
                ts_log.append((tag, np.array(ts, copy=True)))
                v = scale * (np.round(ts * rate) + unit) + tag
                return v * (1j if cplx else 1)
            return f

        def is_cplx(p):
            return (complex_src == "y" and p == 1) or complex_src is True
        for ai, a in enumerate(ants):
            for p, s in enumerate(a.streams):
                s.add_signal(mk(1000.0 * (ai * 2 + p + 1), 1.0, 0.0, is_cplx(p)))      # own: tick + 1000*tag   (tick < 1000)
        if cfg["kind"] == "array":
            for p, s in enumerate(src.bg_streams):
                s.add_signal(mk(1e10 * (p + 1), 1e6, 1.0, is_cplx(p)))       # bg: 1e6*(tick+1) + 1e10*(pol+1)
    elif mode == "noise":
        for ai, a in enumerate(ants):
            for p, s in enumerate(a.streams):
                refs[("o", ai, p)] = copy.deepcopy(s.rng).standard_normal(400)
                s.add_noise(0, 1)
        if cfg["kind"] == "array":
            for p, s in enumerate(src.bg_streams):
                refs[("b", p)] = copy.deepcopy(s.rng).standard_normal(400)
                s.add_noise(0, 1)
    elif mode == "chirp":
        from astropy import units as u
        # every other configuration hands the parameters over as ONE unit-carrying object per kind that is stepped in
        # place between the calls (f += df): each call must see the value the object holds at that moment
        as_quantity = (seed + cfg["pols"] + cfg["nant"]) % 2 == 0
        fq = (rate * 0.11 / 1e3) * u.kHz
        for ai, a in enumerate(ants):
            for p, s in enumerate(a.streams):
                # second polarisation: a non-drifting tone (drift exactly 0) with a phase that is not a multiple of pi
                par = (rate * (0.11 + 0.07 * ai + 0.03 * p), rate * rate * 0.002 if p == 0 else 0.0,
                       1.5 + ai, 0.3 + 1.1 * p)
                if as_quantity:
                    fq += ((par[0] / 1e3) * u.kHz - fq)                  # in place: the same object, a new value
                    par = (float(fq.to(u.Hz).value), par[1], par[2], par[3])
                    s.add_constant_signal(f_start=fq, drift_rate=(par[1] * 60.0) * u.Hz / u.min, level=par[2], phase=par[3])
                else:
                    s.add_constant_signal(f_start=par[0], drift_rate=par[1], level=par[2], phase=par[3])
                chirp[(ai, p)] = par
    try:
        for k, step in enumerate(steps):
            if step == "done":
                break
            act = step["act"]
            del ts_log[:]
            try:
                v = call(src, ants, cfg, act, rate)
            except Div as d:
                d.step = k
                raise
            except Exception as e:
                raise Div("C10", "exception", "ok", "%s: %s" % (type(e).__name__, e), k)
            if act["name"] == "GetSamples":
                exp = step["out"]
                if v.shape != (cfg["nant"], npol, act["n"]):
                    raise Div("C10", "out.shape", [cfg["nant"], npol, act["n"]], list(v.shape), k)
                for a in range(cfg["nant"]):
                    for p in range(npol):
                        e = exp[a][p]
                        if mode == "ident":
                            raw = v[a][p]
                            cp = (complex_src is True) or (complex_src == "y" and p == 1)
                            if cp:
                                if np.any(np.real(raw) != 0):
                                    raise Div("C10", "out.complex_real_part", 0, np.real(raw).tolist(), k)
                                raw = np.imag(raw)
                            elif np.iscomplexobj(raw):
                                if complex_src is False or np.any(np.imag(raw) != 0):
                                    raise Div("C10", "out.dtype", "real", str(raw.dtype), k)
                                raw = np.real(raw)
                            x = np.asarray(raw, dtype=float)
                            bgpart = np.floor(x / 1e6 + 1e-9)
                            own = x - bgpart * 1e6
                            o_tag = np.floor(own / 1000.0)
                            o_id = own - 1000.0 * o_tag
                            eo = [r["o"] for r in e]
                            if list(o_id) != eo or set(o_tag) != {a * 2 + p + 1}:
                                raise Div("C10", "out.own_ids[%d][%d]" % (a, p), eo,
                                          {"ids": o_id.tolist(), "tags": sorted(set(o_tag))}, k)
                            if cfg["kind"] == "array":
                                b_tag = np.floor(bgpart / 1e4)
                                b_id = bgpart - 1e4 * b_tag - 1
                                eb = [r["b"] for r in e]
                                if list(b_id) != eb or set(b_tag) != {p + 1}:
                                    raise Div("C15", "out.bg_ids[%d][%d]" % (a, p), eb,
                                              {"ids": b_id.tolist(), "tags": sorted(set(b_tag))}, k)
                            elif np.any(bgpart != 0):
                                raise Div("C10", "out.unexpected_background", 0, bgpart.tolist(), k)
                        elif mode == "noise":
                            ow = refs[("o", a, p)][[r["on"] for r in e]]
                            expv = 0.0 + ow
                            if cfg["kind"] == "array":
                                expv = expv + refs[("b", p)][[r["bn"] for r in e]]
                            if not np.array_equal(expv, v[a][p]):
                                cls = "C10" if cfg["kind"] == "antenna" else "C10|C15"
                                raise Div(cls, "out.noise[%d][%d]" % (a, p), expv.tolist(), v[a][p].tolist(), k)
                        elif mode == "chirp":
                            f0, dr, lev, ph = chirp[(a, p)]
                            t = np.array([r["o"] for r in e], dtype=float) / rate
                            cp = 2 * np.pi * ((f0 - 0.0) * t + 0.5 * dr * t ** 2)
                            good = lev * np.cos((cp if ascending else -cp) + ph)
                            if not np.allclose(good, v[a][p], rtol=0, atol=1e-7 * lev):
                                raise Div("C10", "out.chirp[%d][%d]" % (a, p), good.tolist(), np.asarray(v[a][p]).tolist(), k)
                # the times the own sources were evaluated on: t_start + k/sample_rate
                if mode == "ident":
                    for tag, ts in ts_log:
                        if tag >= 1e10:
                            continue
                        idx = int(tag / 1000) - 1
                        a, p = idx // 2, idx % 2
                        want = np.array([r["o"] for r in exp[a][p]], dtype=float) / rate
                        if len(ts) != len(want) or np.max(np.abs(ts - want)) > 8 * np.spacing(max(want.max(), 1.0 / rate)) + 1e-9 / rate:
                            raise Div("C10", "times[%d][%d]" % (a, p), want.tolist(), ts.tolist(), k)
            obs = project(cfg, src, ants, rate)
            compare_state(cfg, step["st"], obs, k)
    except Div as d:
        return d
    return None
