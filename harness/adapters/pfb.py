"""Adapter binding PFB.tla to setigen.voltage.polyphase_filterbank, plus the harness-owned direct
FIR+DFT definition used for realistic sizes (numeric projection, outside TLC)."""
import numpy as np
import scipy.signal

from setigen.voltage import polyphase_filterbank as pfbm


def val(o, r, b):
    return ((r * 7 + b * 3 + o * 5 + r * r) % 7) - 3


def val_i(o, r, b):
    return ((r * 5 + b * 2 + o * 3 + 1) % 5) - 2


def hwin(tau, b):
    return 1 + tau * 3 + b * 2 - tau * b


def rows(cfg, o, r0, n):
    B = cfg["B"]
    re = np.array([[val(o, r, b) for b in range(B)] for r in range(r0, r0 + n)], dtype=float).reshape(-1)
    if cfg["cplx"]:
        im = np.array([[val_i(o, r, b) for b in range(B)] for r in range(r0, r0 + n)], dtype=float).reshape(-1)
        return re + 1j * im
    return re


class Div(Exception):
    def __init__(self, field, expected, observed, step):
        Exception.__init__(self, field)
        self.field, self.expected, self.observed, self.step = field, expected, observed, step


def replay(beh):
    cfg, steps = beh["cfg"], beh["steps"]
    taps, B = cfg["taps"], cfg["B"]
    objs = {}
    for o in (1, 2):
        pf = pfbm.PolyphaseFilterbank(num_taps=taps, num_branches=B, window_fn="hamming")
        pf.window = np.array([[hwin(t, b) for b in range(B)] for t in range(taps)], dtype=float).reshape(-1)
        objs[o] = pf
    try:
        for k, step in enumerate(steps):
            act = step["act"]
            if act["name"] == "Done":
                break
            if act["name"] == "Reset":
                objs[act["o"]]._reset_cache()
            else:
                o = act["o"]
                x = rows(cfg, o, act["from"], act["w"] * taps)
                try:
                    out = objs[o].channelize(x, cache=bool(act["cache"]))
                except Exception as e:
                    raise Div("exception", "ok", "%s: %s" % (type(e).__name__, e), k)
                exp = step["out"]
                if out.shape != (len(exp), B // 2):
                    raise Div("out.shape", [len(exp), B // 2], list(out.shape), k)
                got = out * np.sqrt(B)
                want = np.array([[complex(c[0], c[1]) for c in sp["ch"]] for sp in exp], dtype=complex).reshape(len(exp), B // 2)
                if len(exp) and np.max(np.abs(got - want)) > 1e-9:
                    bad = int(np.argmax(np.max(np.abs(got - want), axis=1)))
                    raise Div("out.spectra", {"row": exp[bad]["row"], "ch": exp[bad]["ch"]},
                              {"index": bad, "ch": [[float(np.real(z)), float(np.imag(z))] for z in got[bad]],
                               "n_wrong": int(np.sum(np.max(np.abs(got - want), axis=1) > 1e-9))}, k)
            for o in (1, 2):
                c = objs[o].cache
                clen = -1 if c is None else len(c) // B
                if clen != step["clen"][o - 1]:
                    raise Div("cache_len[%d]" % o, step["clen"][o - 1], clen, k)
    except Div as d:
        return d
    return None


# ---------------------------------------------------------------------------
def direct_pfb(x, window, taps, B):
    """The definition in the property text: spectrum n, channel k = (1/sqrt(B)) * sum_b e^{-2 pi i b k / B}
    * sum_tau window[tau*B + b] * x[(n+tau)*B + b], lower half of the channels."""
    nrow = len(x) // B
    W = nrow // taps
    nout = (W - 1) * taps
    xr = np.asarray(x)[:W * taps * B].reshape(W * taps, B)
    h = np.asarray(window).reshape(taps, B)
    s = np.zeros((nout, B), dtype=complex)
    for n in range(nout):
        for tau in range(taps):
            s[n] += h[tau] * xr[n + tau]
    k = np.arange(B // 2)
    b = np.arange(B)
    dft = np.exp(-2j * np.pi * np.outer(b, k) / B)
    return s.dot(dft) / np.sqrt(B)


def compositions(n, seed, limit):
    """Compositions of n windows into chunk sizes >= 1 (all if few, else a seeded sample)."""
    allc = []

    def rec(rem, cur):
        if rem == 0:
            allc.append(list(cur))
            return
        for c in range(1, rem + 1):
            cur.append(c)
            rec(rem - c, cur)
            cur.pop()
    rec(n, [])
    if len(allc) <= limit:
        return allc
    rng = np.random.default_rng(seed)
    idx = rng.choice(len(allc), size=limit, replace=False)
    return [allc[i] for i in idx]
