"""Adapter binding Registration.tla to real recordings (C07).  Peak finding is a numeric projection outside TLC."""
import os

import numpy as np

from setigen.voltage import antenna as v_antenna
from setigen.voltage import backend as v_backend
from setigen.voltage import polyphase_filterbank as v_pfb
from setigen.voltage import quantization as v_q
from setigen.voltage import raw_utils
from setigen.voltage import waterfall as v_wf

from .. import guppi


class Div(Exception):
    def __init__(self, field, expected, observed):
        Exception.__init__(self, field)
        self.field, self.expected, self.observed = field, expected, observed


TAPS = 4
COUNTS = {"second_recordings_followed": 0, "aligned_headers": 0, "via_data": 0}


def record(c, inst, workdir, drift=0.0, T=None, extra_cards=0):
    B, L = c["B"], c["L"]
    rate, fch1 = inst["rate"], inst["fch1"]
    s = 1.0 if c["asc"] else -1.0
    chan_bw = rate / B
    q = chan_bw / (2.0 * L)
    f_tone = fch1 + s * c["g"] * q
    T = c["T"] if T is None else T
    src = v_antenna.Antenna(sample_rate=rate, fch1=fch1, ascending=c["asc"], num_pols=inst["pols"], seed=inst["seed"])
    for k, st in enumerate(src.streams):
        st.add_noise(0, 0.05)
        st.add_constant_signal(f_start=f_tone, drift_rate=drift, level=1.0, phase=0.4 * k)
    bps = 2 * inst["pols"]
    block_size = c["nch"] * T * bps
    be = v_backend.RawVoltageBackend(src, digitizer=v_q.RealQuantizer(target_fwhm=32, num_bits=8),
                                     filterbank=v_pfb.PolyphaseFilterbank(num_taps=TAPS, num_branches=B),
                                     requantizer=v_q.ComplexQuantizer(target_fwhm=32, num_bits=8),
                                     start_chan=c["start"], num_chans=c["nch"], block_size=block_size, blocks_per_file=1,
                                     num_subblocks=2)
    stem = os.path.join(workdir, "reg")
    hd = {}
    if inst["directio"]:
        hd["DIRECTIO"] = 1
    for k in range(extra_cards):
        hd["VPAD%04d" % k] = k
    be.record(stem, num_blocks=1, length_mode="num_blocks", header_dict=hd, load_template=False, verbose=False)
    return stem, f_tone, chan_bw * s, block_size, be, src


def header_cards(fn):
    """Number of 80-byte cards of the first header, END included (harness-owned scan)."""
    n = 0
    with open(fn, "rb") as f:
        while True:
            card = f.read(80)
            n += 1
            if card.startswith(b"END ") or len(card) < 80:
                return n


def locate(fn, c, inst, L):
    """(header, peak coarse channel, peak fine bin) of the first block of a file, by the harness's own parser and FFT."""
    blocks = guppi.parse_file(fn)
    v = guppi.decode_block(blocks[0]["data"], c["nch"], inst["pols"], 8)
    P = fine_power(v[:, :, 0], L).sum(axis=0)
    j, b = np.unravel_index(int(np.argmax(P)), P.shape)
    return blocks[0]["hdr"], int(j), int(b)


def hdr_freq(h, j, b, L):
    """Sky frequency the file's own header assigns to coarse channel j, fine bin b of an L-point shifted FFT."""
    nchan = int(h["OBSNCHAN"]) // int(h.get("NANTS", 1))
    cbw = float(h["CHAN_BW"]) * 1e6
    return float(h["OBSFREQ"]) * 1e6 + (j - (nchan - 1) / 2.0) * cbw + (b - L / 2.0) * cbw / L


def fine_power(x, L):
    """x: [nch, T] complex -> [nseg, nch, L] power of L-point shifted FFTs."""
    nseg = x.shape[1] // L
    seg = x[:, :nseg * L].reshape(x.shape[0], nseg, L)
    X = np.fft.fftshift(np.fft.fft(seg, axis=2), axes=2)
    return np.transpose(np.abs(X) ** 2, (1, 0, 2))


def check(out, inst, workdir):
    c = out["cfg"]
    L = c["L"]
    stem, f_tone, chan_bw, block_size, be, src = record(c, inst, workdir)
    fn = stem + ".0000.raw"
    try:
        blocks = guppi.parse_file(fn)
        if inst.get("align") and inst["directio"]:
            # a header that is already a multiple of 512 bytes (32 cards): DIRECTIO adds no padding then
            ncards = header_cards(fn)
            if ncards % 32 != 0:
                stem, f_tone, chan_bw, block_size, be, src = record(c, inst, workdir, extra_cards=32 - ncards % 32)
                blocks = guppi.parse_file(fn)
                if header_cards(fn) % 32 != 0:
                    raise Div("harness.align", "header of 32 n cards", header_cards(fn))
            COUNTS["aligned_headers"] += 1
        h = blocks[0]["hdr"]
        v = guppi.decode_block(blocks[0]["data"], c["nch"], inst["pols"], 8)          # [nch, T, pols]
        P = fine_power(v[:, :, 0], L).sum(axis=0)                                       # [nch, L]
        j, b = np.unravel_index(int(np.argmax(P)), P.shape)
        fbin = abs(chan_bw) / L
        f_hdr = hdr_freq(h, j, b, L)
        if abs(f_hdr - f_tone) > fbin * (1 + 1e-6):
            raise Div("header_locates_tone", {"tone_hz": f_tone, "within_hz": fbin, "spec_chan": out["chan"], "spec_bins": out["bins"]},
                      {"peak_chan": int(j), "peak_bin": int(b), "header_freq_hz": f_hdr})
        if int(j) != out["chan"] or int(b) not in out["bins"]:
            raise Div("peak_position", {"chan": out["chan"], "bins": out["bins"]}, {"chan": int(j), "bin": int(b)})
        # header quantities against the model (quanta -> Hz)
        q = abs(chan_bw) / (2.0 * L)
        s = 1.0 if c["asc"] else -1.0
        want_obsfreq = inst["fch1"] + s * out["obsfreq"] * q
        if abs(float(h["OBSFREQ"]) * 1e6 - want_obsfreq) > 1e-9 * abs(want_obsfreq) + 1e-6 * q:
            raise Div("OBSFREQ", want_obsfreq, float(h["OBSFREQ"]) * 1e6)
        if abs(float(h["CHAN_BW"]) * 1e6 - chan_bw) > 1e-9 * abs(chan_bw) or abs(float(h["OBSBW"]) * 1e6 - chan_bw * c["nch"]) > 1e-9 * abs(chan_bw) * c["nch"]:
            raise Div("CHAN_BW/OBSBW", [chan_bw, chan_bw * c["nch"]], [h["CHAN_BW"], h["OBSBW"]])
        if abs(float(h["TBIN"]) - c["B"] / inst["rate"]) > 1e-12 * c["B"] / inst["rate"]:
            raise Div("TBIN", c["B"] / inst["rate"], h["TBIN"])
        # reading the parameters back
        rp = raw_utils.get_raw_params(stem, start_chan=c["start"])
        if rp["ascending"] != c["asc"] or abs(rp["chan_bw"] - chan_bw) > 1e-9 * abs(chan_bw) \
                or abs(rp["fch1"] - inst["fch1"]) > 1e-9 * abs(inst["fch1"]) + 1e-6 * abs(chan_bw):
            raise Div("get_raw_params", {"ascending": c["asc"], "chan_bw": chan_bw, "fch1": inst["fch1"]},
                      {k: rp[k] for k in ("ascending", "chan_bw", "fch1")})
        if rp["num_chans"] != c["nch"] or rp["num_pols"] != inst["pols"] or rp["num_bits"] != 8 or rp["block_size"] != block_size:
            raise Div("get_raw_params.framing", [c["nch"], inst["pols"], 8, block_size],
                      [rp["num_chans"], rp["num_pols"], rp["num_bits"], rp["block_size"]])
        # the library's own fine channeliser on the decoded voltages
        wf = v_wf.get_pfb_waterfall(v[:, :, 0].T, None if inst["pols"] == 1 else v[:, :, 1].T, fftlength=L, int_factor=c["intf"])
        if wf.shape != (out["rows"], out["cols"]):
            raise Div("get_pfb_waterfall.shape", [out["rows"], out["cols"]], list(wf.shape))
        col = int(np.argmax(wf.sum(axis=0)))
        if col // L != out["chan"] or col % L not in out["bins"]:
            raise Div("get_pfb_waterfall.peak", {"chan": out["chan"], "bins": out["bins"]}, {"chan": col // L, "bin": col % L})
        # rows are consecutive integrations of int_factor spectra each, from the start
        Pseg = fine_power(v[:, :, 0], L)
        if inst["pols"] == 2:
            Pseg = Pseg + fine_power(v[:, :, 1], L)
        want = Pseg[:out["rows"] * c["intf"]].reshape(out["rows"], c["intf"], c["nch"] * L).sum(axis=1) / L
        if np.max(np.abs(wf - want)) > 1e-6 * np.max(want):
            raise Div("get_pfb_waterfall.values", "sum of int_factor consecutive fine spectra from the start", "mismatch")
        # the quick-look reducer (documented for dual-polarised 8-bit files)
        if inst["pols"] == 2:
            try:
                ql = v_wf.get_waterfall_from_raw(fn, block_size, c["nch"], int_factor=c["intf"], fftlength=L)
            except Exception as e:
                raise Div("get_waterfall_from_raw", "array of shape %s" % ((out["rows"], out["cols"]),), "%s: %s" % (type(e).__name__, e))
            if ql.shape != (out["rows"], out["cols"]):
                raise Div("get_waterfall_from_raw.shape", [out["rows"], out["cols"]], list(ql.shape))
            if np.max(np.abs(ql - want)) > 1e-6 * np.max(want):
                raise Div("get_waterfall_from_raw.values", "fine spectra of the first block", "mismatch (max rel %.3g)" % (np.max(np.abs(ql - want)) / np.max(want)))
        # injection onto this recording (from_data with the same first-channel index): the output is registered like the input
        if inst.get("via_data"):
            src2 = v_antenna.Antenna(sample_rate=inst["rate"], fch1=inst["fch1"], ascending=c["asc"], num_pols=inst["pols"], seed=inst["seed"] + 1)
            for st in src2.streams:
                st.add_noise(0, 0.01)
            try:
                be2 = v_backend.RawVoltageBackend.from_data(stem, src2, digitizer=v_q.RealQuantizer(target_fwhm=32, num_bits=8),
                                                            filterbank=v_pfb.PolyphaseFilterbank(num_taps=TAPS, num_branches=c["B"]),
                                                            start_chan=c["start"], num_subblocks=2)
                be2.record(os.path.join(workdir, "out"), num_blocks=1, length_mode="num_blocks", verbose=False)
            except Exception as e:
                raise Div("from_data.record", "ok", "%s: %s" % (type(e).__name__, str(e)[:150]))
            h2, j2, b2 = locate(os.path.join(workdir, "out.0000.raw"), c, inst, L)
            for card in ("OBSFREQ", "OBSBW", "CHAN_BW", "OBSNCHAN", "TBIN"):
                if abs(float(h2[card]) - float(h[card])) > 1e-9 * abs(float(h[card])):
                    raise Div("from_data.header", {card: h[card]}, {card: h2[card]})
            if abs(hdr_freq(h2, j2, b2, L) - f_tone) > fbin * (1 + 1e-6):
                raise Div("from_data.header_locates_tone", {"tone_hz": f_tone, "within_hz": fbin},
                          {"peak_chan": j2, "peak_bin": b2, "header_freq_hz": hdr_freq(h2, j2, b2, L)})
            COUNTS["via_data"] += 1
            rp2 = raw_utils.get_raw_params(os.path.join(workdir, "out"), start_chan=c["start"])
            if rp2["ascending"] != c["asc"] or abs(rp2["fch1"] - inst["fch1"]) > 1e-9 * abs(inst["fch1"]) + 1e-6 * abs(chan_bw):
                raise Div("from_data.get_raw_params", {"ascending": c["asc"], "fch1": inst["fch1"]}, {k: rp2[k] for k in ("ascending", "fch1")})
    finally:
        for f in os.listdir(workdir):
            os.remove(os.path.join(workdir, f))


def check_chirp(c, inst, workdir, drift_bins_per_seg, nseg=8, second=False):
    """A chirp's instantaneous frequency follows f_start + drift * t (per-segment peak, header frequency); with
    second=True the same backend records a second observation and the chirp continues from the time already
    elapsed on the source (the stream clocks themselves are decided by C10 / C15)."""
    L, B = c["L"], c["B"]
    T = nseg * L
    chan_bw = inst["rate"] / B
    fbin = chan_bw / L
    tseg = L * B / inst["rate"]
    drift = drift_bins_per_seg * fbin / tseg
    stem, f0, cbw, block_size, be, src = record(c, inst, workdir, drift=drift, T=T)

    def follow(fn, elapsed, which):
        blocks = guppi.parse_file(fn)
        h = blocks[0]["hdr"]
        v = guppi.decode_block(blocks[0]["data"], c["nch"], inst["pols"], 8)
        P = fine_power(v[:, :, 0], L)
        # PFB output spectrum n starts at input row n: spectra are delayed by the filter's group delay (taps-1)/2 rows + L/2
        for k in range(nseg):
            j, b = np.unravel_index(int(np.argmax(P[k])), P[k].shape)
            t_mid = elapsed + (k * L + L / 2.0 + (TAPS - 1) / 2.0 + 0.5) * B / inst["rate"]
            want = f0 + drift * t_mid
            got = hdr_freq(h, j, b, L)
            if abs(got - want) > 1.5 * fbin:
                raise Div("chirp_follows_drift" + which, {"segment": k, "freq_hz": want, "tolerance_hz": 1.5 * fbin, "drift_hz_s": drift,
                                                          "elapsed_s": elapsed},
                          {"freq_hz": got, "chan": int(j), "bin": int(b)})
    try:
        follow(stem + ".0000.raw", 0.0, "")
        if second:
            elapsed = float(src.streams[0].t_start)
            want_elapsed = (T + TAPS) * B / inst["rate"]      # one block of T spectra: T + taps rows of B samples
            if abs(elapsed - want_elapsed) > 0.5 / inst["rate"]:
                return          # the stream clock is not this property's business (C10 / C15 / C02)
            be.record(os.path.join(workdir, "reg2"), num_blocks=1, length_mode="num_blocks", load_template=False, verbose=False)
            COUNTS["second_recordings_followed"] += 1
            follow(os.path.join(workdir, "reg2.0000.raw"), elapsed, ".second_recording")
    finally:
        for f in os.listdir(workdir):
            os.remove(os.path.join(workdir, f))
