"""Adapter binding FrameAxes.tla to setigen.Frame (C05).  Grid positions are mapped to floats with exact
Fractions; a float that cannot be placed on the grid within the stated tolerance is a divergence."""
from fractions import Fraction

import numpy as np
from astropy import units as u

import setigen as stg

FQ = 4
TQ = 4

GEOMS = {
    "dyadic": dict(df=1.0, dt=1.0, f0=100.0),
    "bl_hires": dict(df=2.7939677238464355, dt=18.253611008, f0=6095214842.353016 - 500 * 2.7939677238464355),
    "decimal": dict(df=0.1, dt=0.1, f0=1420400000.0),
    "coarse": dict(df=2929687.5, dt=0.0010737418240000001, f0=1.0e9),
    "subhz": dict(df=0.001, dt=0.3, f0=8.0e9),
    "decimal3": dict(df=0.7, dt=0.3, f0=2.5e8),
}
BACKENDS = {
    "bl": dict(sample_rate=3e9, num_branches=1024, fftlength=1048576, int_factor=51, f0=6.0e9),
    "small": dict(sample_rate=1.0e6, num_branches=16, fftlength=64, int_factor=3, f0=1.0e8),
}


class Div(Exception):
    def __init__(self, field, expected, observed):
        Exception.__init__(self, field)
        self.field, self.expected, self.observed = field, expected, observed


def ftol(df, f):
    return max(1e-6 * df, 4 * np.spacing(abs(f)))


def build(fr, geom_name, asc=None, t_start=1000.0):
    asc = fr["asc"] if asc is None else asc
    F, T, lo = fr["F"], fr["T"], fr["lo"]
    route = fr["route"]
    if route == "backend":
        b = BACKENDS[geom_name]
        df = b["sample_rate"] / b["num_branches"] / b["fftlength"]
        dt = b["int_factor"] / df
        f0 = b["f0"]
    else:
        g = GEOMS[geom_name]
        df, dt, f0 = g["df"], g["dt"], g["f0"]
    fmin = float(Fraction(f0) + Fraction(df) * lo)
    fmax = float(Fraction(f0) + Fraction(df) * (lo + F - 1))
    fch1 = fmin if asc else fmax
    kw = dict(t_start=t_start)
    if route == "sizes":
        frame = stg.Frame(fchans=F, tchans=T, df=df, dt=dt, fch1=fch1, ascending=asc, **kw)
    elif route == "shape":
        frame = stg.Frame(shape=(T, F), df=df, dt=dt, fch1=fch1, ascending=asc, **kw)
    elif route == "data":
        if (F + T) % 2:
            frame = stg.Frame(data=np.zeros((T, F)), df=df, dt=dt, fch1=fch1, ascending=asc, **kw)
        else:
            frame = stg.Frame.from_data(df, dt, fch1, asc, np.zeros((T, F)))
    elif route == "quantity":
        frame = stg.Frame(fchans=F * u.pixel, tchans=T * u.pixel, df=(df / 1e3) * u.kHz, dt=(dt * 1e3) * u.ms,
                          fch1=(fch1 / 1e6) * u.MHz if (F % 2) else (fch1 / 1e9) * u.GHz, ascending=asc, **kw)
    elif route == "backend":
        b = BACKENDS[geom_name]
        # half of the frames ask for a duration inside the T-th integration, the other half for exactly T integrations
        # (T * dt with the library's own dt): T whole integrations fit, unless the float quotient itself falls below T
        obs_length = (T + 0.5) * dt
        if (F + T + lo) % 2 == 0 and (T * dt) / dt >= T:
            obs_length = T * dt
        frame = stg.Frame.from_backend_params(fchans=F, obs_length=obs_length, sample_rate=b["sample_rate"],
                                              num_branches=b["num_branches"], fftlength=b["fftlength"],
                                              int_factor=b["int_factor"], fch1=fch1, ascending=asc)
    else:
        raise RuntimeError(route)
    return frame, df, dt, f0


def check(out, geom_name):
    fr = out["fr"]
    F, T = fr["F"], fr["T"]
    frame, df, dt, f0 = build(fr, geom_name)

    def fval(g):
        return float(Fraction(f0) + Fraction(df) * Fraction(g, FQ))
    if (frame.fchans, frame.tchans, tuple(frame.shape), frame.data.shape) != (F, T, (T, F), (T, F)):
        raise Div("shape", [F, T], [frame.fchans, frame.tchans, list(frame.shape), list(frame.data.shape)])
    if bool(frame.ascending) != fr["asc"]:
        raise Div("ascending", fr["asc"], bool(frame.ascending))
    if abs(frame.df - df) > 1e-14 * df or abs(frame.dt - dt) > 1e-14 * dt:
        raise Div("df/dt", [df, dt], [frame.df, frame.dt])
    fs = np.asarray(frame.fs, dtype=float)
    if fs.shape != (F,):
        raise Div("fs.len", F, list(fs.shape))
    for j in range(F):
        e = fval(out["fs"][j])
        if abs(fs[j] - e) > ftol(df, e):
            raise Div("fs[%d]" % j, e, float(fs[j]))
    if F > 1 and not np.all(np.diff(fs) > 0):
        raise Div("fs.increasing", "strictly increasing", fs.tolist())
    for name, g in (("fmin", out["fmin"]), ("fmax", out["fmax"]), ("fch1", out["fch1"])):
        if abs(getattr(frame, name) - fval(g)) > ftol(df, fval(g)):
            raise Div(name, fval(g), getattr(frame, name))
    e = float(Fraction(f0) + Fraction(df) * Fraction(out["fmid2"], 2 * FQ))
    if abs(frame.fmid - e) > ftol(df, e):
        raise Div("fmid", e, frame.fmid)
    ts = np.array(frame.ts, dtype=float)              # a copy: the axis is moved in place further down
    if ts.shape != (T,):
        raise Div("ts.len", T, list(ts.shape))
    for i in range(T):
        e = out["ts"][i] / TQ * dt
        if abs(ts[i] - e) > 4 * np.spacing(max(e, dt)):
            raise Div("ts[%d]" % i, e, float(ts[i]))
    te = np.asarray(frame.ts_ext, dtype=float)
    if te.shape != (T + 1,) or abs(te[-1] - T * dt) > 4 * np.spacing(T * dt) or not np.array_equal(te[:T], ts):
        raise Div("ts_ext", [T + 1, T * dt], [list(te.shape), float(te[-1]) if len(te) else None])
    # the time axis moved in place after ts_ext has been read (then moved back by rebinding): ts_ext follows the current axis
    k = fr.get("shift", 0)
    if k:
        keep = np.array(frame.ts, copy=True)
        frame.ts += k * dt
        te2 = np.asarray(frame.ts_ext, dtype=float)
        want = np.array(out["tsExtMoved"], dtype=float) / TQ * dt
        if te2.shape != want.shape or np.max(np.abs(te2 - want)) > 8 * np.spacing((T + k) * dt) or not np.array_equal(te2[:T], np.asarray(frame.ts, dtype=float)):
            raise Div("ts_ext.after_moving_ts", want.tolist(), te2.tolist())
        frame.ts = keep
        te3 = np.asarray(frame.ts_ext, dtype=float)
        if te3.shape != te.shape or np.max(np.abs(te3 - te)) > 8 * np.spacing((T + k) * dt):
            raise Div("ts_ext.after_restoring_ts", te.tolist(), te3.tolist())
    if abs(frame.obs_length - T * dt) > 4 * np.spacing(T * dt) or abs(frame.t_stop - (frame.t_start + T * dt)) > 4 * np.spacing(frame.t_start + T * dt):
        raise Div("obs_length/t_stop", [T * dt, frame.t_start + T * dt], [frame.obs_length, frame.t_stop])
    if abs(frame.unit_drift_rate - df / dt) > 1e-14 * df / dt:
        raise Div("unit_drift_rate", df / dt, frame.unit_drift_rate)
    for key, d in (out["drift"].items() if isinstance(out["drift"], dict) else []):
        pass
    for (j0, j1) in ((0, F - 1), (F - 1, 0), (0, 0)):
        e = (j1 - j0) * df / (T * dt)
        g = frame.get_drift_rate(j0, j1)
        if abs(g - e) > 1e-14 * max(abs(e), df / dt):
            raise Div("get_drift_rate", e, g)
    # index -> frequency -> index; frequency -> nearest index
    for j in range(F):
        f = frame.get_frequency(j)
        if abs(f - fs[j]) > ftol(df, fs[j]):
            raise Div("get_frequency(%d)" % j, float(fs[j]), f)
        k = int(frame.get_index(f))
        if k != j:
            raise Div("index(frequency(%d))" % j, j, k)
        for unit in (u.Hz, u.kHz, u.MHz, u.GHz):
            k = int(frame.get_index((fs[j] * u.Hz).to(unit)))
            if k != j:
                raise Div("index(fs[%d] %s)" % (j, unit), j, k)
    idx = out["index"]
    for gkey, allowed in idx.items():
        g = int(gkey)
        k = int(frame.get_index(fval(g)))
        if k not in allowed:
            raise Div("get_index", {"grid_position_quarter_channels": g - out["fmin"], "allowed": allowed}, k)
    # the opposite-orientation twin of the same band
    twin, _, _, _ = build(fr, geom_name, asc=not fr["asc"])
    tfs = np.asarray(twin.fs, dtype=float)
    if tfs.shape != fs.shape or np.max(np.abs(tfs - fs)) > ftol(df, fs[-1]):
        raise Div("twin.fs", fs.tolist(), tfs.tolist())
    if not np.array_equal(np.asarray(twin.ts), ts) or abs(twin.fmid - frame.fmid) > ftol(df, frame.fmid):
        raise Div("twin.ts/fmid", [ts.tolist(), frame.fmid], [np.asarray(twin.ts).tolist(), twin.fmid])
    if F >= 2 and fr["route"] != "backend":
        fstart = fval(out["fmin"] + 2)
        drift = 0.5 * df / dt
        a = frame.add_signal(stg.constant_path(f_start=fstart, drift_rate=drift), stg.constant_t_profile(level=2.0),
                             stg.gaussian_f_profile(width=1.5 * df), stg.constant_bp_profile(level=1))
        b = twin.add_signal(stg.constant_path(f_start=fstart, drift_rate=drift), stg.constant_t_profile(level=2.0),
                            stg.gaussian_f_profile(width=1.5 * df), stg.constant_bp_profile(level=1))
        scale = max(1e-12, float(np.max(np.abs(a))))
        # (f - f_centre) loses up to ulp(f) in each frame: the profile may differ by ulp(f)/df * slope
        tol = 1e-9 + 64 * np.spacing(fs[-1]) / df * 2.0 * 2.0
        if a.shape != b.shape or np.max(np.abs(a - b)) > tol * max(scale, 1.0) or not np.array_equal(frame.data, a) or not np.array_equal(twin.data, b):
            raise Div("twin.injection", "identical injected data", {"max_abs_diff": float(np.max(np.abs(a - b))), "tol": tol})
