"""Adapter binding ConstSignal.tla to Frame.add_constant_signal (C13).  The general signal comes from the real
add_signal on a twin frame (decided by C01); TLC supplies the sub-step count and the per-pixel relation mask."""
import numpy as np

import setigen as stg

from .injection import GEOMS

FQ = 24


class Div(Exception):
    def __init__(self, field, expected, observed):
        Exception.__init__(self, field)
        self.field, self.expected, self.observed = field, expected, observed


def frame_for(c, gname):
    g = GEOMS[gname]
    F, T, asc = c["F"], c["T"], c["asc"]
    fch1 = g["fmin"] if asc else g["fmin"] + (F - 1) * g["df"]
    return stg.Frame(fchans=F, tchans=T, df=g["df"], dt=g["dt"], fch1=fch1, ascending=asc, t_start=0.0, seed=2)


def profile(ptype, width):
    return {"box": lambda: stg.box_f_profile(width), "sinc2": lambda: stg.sinc2_f_profile(width),
            "gaussian": lambda: stg.gaussian_f_profile(width), "lorentzian": lambda: stg.lorentzian_f_profile(width),
            "voigt": lambda: stg.voigt_f_profile(width, width)}[ptype]()


def helper(c, gname, d=None, smear=None, level=3.5, fr=None, s0=None):
    g = GEOMS[gname]
    unit = g["df"] / FQ
    fr = frame_for(c, gname) if fr is None else fr
    d = c["d"] if d is None else d
    smear = c["smear"] if smear is None else smear
    f_start = g["fmin"] + (c["s0"] if s0 is None else s0) * unit
    # a drift of a whole number of channels per step is given as exactly k * unit_drift_rate
    drift = (d // FQ) * fr.unit_drift_rate if d % FQ == 0 else d * unit / g["dt"]
    width = c["w"] * unit
    from astropy import units as u
    q = (c["s0"] + c["w"] + c["T"]) % 3               # plain floats, or quantities in other units than Hz
    if q == 1:
        args = dict(f_start=(f_start * u.Hz).to(u.MHz), drift_rate=drift * u.Hz / u.s, width=(width * u.Hz).to(u.kHz))
    elif q == 2:
        args = dict(f_start=f_start * u.Hz, drift_rate=(drift * u.Hz / u.s).to(u.kHz / u.s), width=(width * u.Hz).to(u.MHz))
    else:
        args = dict(f_start=f_start, drift_rate=drift, width=width)
    out = fr.add_constant_signal(level=level, f_profile_type=c["type"], doppler_smearing=smear, **args)
    return fr, out, f_start, drift, width


def edge_mask(c, out, shape):
    """Pixels exactly on the edge of a compact profile (|f - centre| == w/2 for some sub-step): a unit conversion of the width
    moves the edge by an ulp, so neither outcome is judged there."""
    m = np.zeros(shape, dtype=bool)
    n = out["n"]
    for i in range(shape[0]):
        for j in range(shape[1]):
            for k in range(n):
                cc = c["s0"] + c["d"] * i + (k * c["d"] / n if c["smear"] else 0)
                if abs(abs(FQ * j - cc) - c["w"] / 2.0) < 1e-6:
                    m[i, j] = True
    return m


def check(out, gname):
    c = out["cfg"]
    g = GEOMS[gname]
    level = 3.5
    try:
        fr, h, f_start, drift, width = helper(c, gname, level=level)
    except Exception as e:
        raise Div("exception", "ok", "%s: %s" % (type(e).__name__, e))
    tw = frame_for(c, gname)
    gen = tw.add_signal(stg.constant_path(f_start=f_start, drift_rate=drift), stg.constant_t_profile(level=level),
                        profile(c["type"], width), stg.constant_bp_profile(level=1), doppler_smearing=c["smear"],
                        smearing_subsamples=out["n"])
    mask = np.array(out["mask"], dtype=bool)
    if h.shape != gen.shape or not np.all(np.isfinite(h)):
        raise Div("shape/finite", list(gen.shape), list(h.shape))
    if not np.array_equal(fr.data, h):
        raise Div("data_delta", "frame data == returned", "mismatch")
    # discontinuous profiles flip at their edge under 1-ulp differences of f - f_centre: exclude exact-edge pixels
    tol = 1e-9 * level + 512 * np.spacing(g["fmin"] + c["F"] * g["df"]) / min(width, g["df"]) * level
    diff = np.abs(h - gen) > tol
    if c["type"] in ("box", "sinc2") and np.any(diff):
        unit = g["df"] / FQ
        for (i, j) in np.argwhere(diff):
            n = out["n"]
            cands = [c["s0"] + c["d"] * i + (k * c["d"] / n if c["smear"] else 0) for k in range(n)]
            on_edge = any(abs(abs(FQ * j - cc) - c["w"] / 2.0) < 1e-6 for cc in cands)
            if on_edge:
                diff[i, j] = False
    bad_eq = diff & mask
    if np.any(bad_eq):
        i, j = np.argwhere(bad_eq)[0]
        raise Div("must_equal_general", {"pixel": [int(i), int(j)], "general": float(gen[i, j]), "substeps": out["n"]},
                  {"helper": float(h[i, j]), "n_wrong": int(bad_eq.sum())})
    bad_other = diff & ~mask & (h != 0)
    if np.any(bad_other):
        i, j = np.argwhere(bad_other)[0]
        raise Div("equal_or_zero", {"pixel": [int(i), int(j)], "general": float(gen[i, j])}, {"helper": float(h[i, j])})
    if np.any((gen == 0) & (np.abs(h) > tol) & ~edge_mask(c, out, h.shape)):
        raise Div("zero_elsewhere", "zero where the general signal is zero", "non-zero")
    # mirror: drift -d is the mirror image of drift +d about a start position on a channel centre
    if c["s0"] % FQ == 0 and c["d"] != 0:
        j0 = c["s0"] // FQ
        _, hn, _, _, _ = helper(c, gname, d=-c["d"], level=level)
        for j in range(c["F"]):
            jm = 2 * j0 - j
            if 0 <= jm < c["F"]:
                m_ok = mask[:, j]
                if np.any(np.abs(hn[:, jm] - h[:, j])[m_ok] > tol) and c["type"] not in ("box",):
                    raise Div("neg_drift_is_mirror", {"column": j, "mirror_column": jm, "values": h[:, j].tolist()},
                              {"values": hn[:, jm].tolist()})
    # a non-drifting smeared signal equals the unsmeared one
    if c["d"] == 0 and c["smear"]:
        _, hu, _, _, _ = helper(c, gname, smear=False, level=level)
        if np.max(np.abs(hu - h)) > tol:
            raise Div("zero_drift_smeared_equals_unsmeared", "equal", {"max_abs_diff": float(np.max(np.abs(hu - h)))})
    # a second helper call on the SAME frame, started elsewhere in the band: the array returned by the first call is
    # untouched, and the second result is what the same call returns on a fresh frame (no state carried on the frame)
    keep = np.array(h, copy=True)
    s2 = (c["F"] * FQ - c["s0"]) if 0 <= c["s0"] <= c["F"] * FQ else c["F"] * FQ // 2
    before = np.array(fr.data, copy=True)
    _, h2, _, _, _ = helper(c, gname, level=level, fr=fr, s0=s2)
    if not np.array_equal(h, keep):
        raise Div("earlier_result_untouched", "array returned by the first call unchanged by a second call", "changed")
    _, h2f, _, _, _ = helper(c, gname, level=level, s0=s2)
    if h2.shape != h2f.shape or not np.array_equal(h2, h2f):
        raise Div("second_call_same_as_on_fresh_frame", "same returned array as on a fresh frame", {"n_different": int(np.sum(h2 != h2f))})
    if not np.array_equal(fr.data, before + h2):
        raise Div("data_delta", "frame data == previous data + returned (second call)", "mismatch")
