"""Adapter binding Injection.tla to Frame.add_signal (C01, C06) and helpers for C13 / C16.

The probe family of the spec is implemented here over floats with the same formulas; TLC supplies the expected
pixel matrix (integer numerators over a denominator) for every configuration."""
import os

import numpy as np

import setigen as stg

FQ = 24
TQ = 6

GEOMS = {
    "odd": dict(df=1.7, dt=0.7, fmin=5.0e8),        # k * (df/dt) * dt / df is not exactly k for some k
    "dyadic": dict(df=1.0, dt=1.0, fmin=100.0),
    "bl_hires": dict(df=2.7939677238464355, dt=18.253611008, fmin=6095211984.124035),
    "coarse": dict(df=2929687.5, dt=0.0010737418240000001, fmin=1.0e9),
}


class Div(Exception):
    def __init__(self, cls, field, expected, observed, step=0):
        Exception.__init__(self, field)
        self.cls, self.field, self.expected, self.observed, self.step = cls, field, expected, observed, step


def make_frame(geo, gname, prior, workdir=None, from_file=False, t_start=1000.0, seed=3):
    g = GEOMS[gname]
    F, T, asc = geo["F"], geo["T"], geo["asc"]
    fch1 = g["fmin"] if asc else g["fmin"] + (F - 1) * g["df"]
    fr = stg.Frame(fchans=F, tchans=T, df=g["df"], dt=g["dt"], fch1=fch1, ascending=asc, t_start=t_start, seed=seed)
    if prior == "ident":
        fr.data = np.array([[1000.0 * (i + 1) + j for j in range(F)] for i in range(T)])
        fr._update_noise_frame_stats()
        if from_file and workdir is not None:
            p = os.path.join(workdir, "prior_%d_%d_%d.fil" % (F, T, int(asc)))
            fr.save_fil(p)
            fr = stg.Frame(waterfall=p, seed=seed)
            os.remove(p)
        else:
            fr.data = fr.data.astype(np.float32)
    return fr


def tolerance(gname, F):
    g = GEOMS[gname]
    fmax = g["fmin"] + F * g["df"]
    return 1e-9 + 64 * np.spacing(fmax) * FQ / g["df"] * 16.0


def components(c, geo, gname, t_offset_rows=0, persistent=False):
    """Python objects for the four components of configuration c.  t_offset_rows shifts the time origin (C16)."""
    g = GEOMS[gname]
    df, dt, fmin = g["df"], g["dt"], g["fmin"]
    unit = df / FQ
    T, F = geo["T"], geo["F"]

    def Pq(tau):
        return c["p0"] + c["slope"] * tau + c["curv"] * tau * tau

    def path_fn(t):
        tau = np.asarray(t, dtype=float) / dt * TQ
        return fmin + Pq(tau) * unit

    def t_fn(t):
        tau = np.rint(np.asarray(t, dtype=float) / dt * TQ)
        return 2.0 + np.mod(tau, 3)

    def f_profile(f, fc):
        d = (f - fc) / unit
        return np.where(d >= 0, np.maximum(0.0, c["wd"] - d), np.maximum(0.0, c["wd"] + 2 * d))

    def bp_fn(f):
        uq = np.rint((np.asarray(f, dtype=float) - fmin) / unit)
        return 1.0 + np.mod(np.floor(uq / 6.0), 2)
    rows = np.arange(T + 2) + t_offset_rows
    pf = c["pathForm"]
    memo = {}

    def path_fn_persistent(t):
        # a user callable that hands out a precomputed array (the same object on every call)
        key = (len(t), float(t[0]), float(t[-1]))
        if key not in memo:
            memo[key] = path_fn(t)
        return memo[key]
    if pf == "fn" and persistent:
        path = path_fn_persistent
    elif pf == "fn":
        path = path_fn
    elif pf == "scalar":
        path = float(fmin + c["p0"] * unit)
    elif pf == "arr":
        path = [float(fmin + Pq(TQ * i) * unit) for i in rows[:T]]
    elif pf == "arrExt":
        path = np.array([fmin + Pq(TQ * i) * unit for i in rows[:T + 1]])
    elif pf == "badlen":
        path = np.array([fmin + Pq(TQ * i) * unit for i in rows[:T + 2]])
    else:
        path = "not a path"
    tf = c["tForm"]
    if tf == "fn":
        tp = t_fn
    elif tf == "scalar":
        tp = 5 if (c["p0"] % 2) else 5.0
    elif tf == "arr":
        tp = [2.0 + ((TQ * i) % 3) for i in rows[:T]]
    elif tf == "badlen":
        tp = np.array([2.0] * (T + 1))
    else:
        tp = "not a profile"
    bf = c["bpForm"]
    if bf == "none":
        bp = None
    elif bf == "fn":
        bp = bp_fn
    elif bf == "scalar":
        bp = 3
    elif bf == "arr":
        bp = np.array([1.0 + (((FQ * j) // 6) % 2) for j in range(F)])
    elif bf == "badlen":
        bp = np.array([1.0] * 97)        # never the length of any (restricted, sub-sampled) frequency grid of the model
    else:
        bp = "not a bandpass"
    bnd = None
    if c["bnd"]:
        b0, b1 = c["bnd"]
        o0 = -0.25 if (b0 % 2) else 0.25
        o1 = 0.25 if (b1 % 2) else -0.25
        bnd = (fmin + (b0 + o0) * df, fmin + (b1 + o1) * df)
        from astropy import units as u
        which = (c["p0"] + c["wd"] + b0) % 4             # plain floats, or quantities in Hz / kHz / MHz
        if which == 1:
            bnd = (bnd[0] * u.Hz, bnd[1] * u.Hz)
        elif which == 2:
            bnd = ((bnd[0] * u.Hz).to(u.kHz), (bnd[1] * u.Hz).to(u.kHz))
        elif which == 3:
            bnd = ((bnd[0] * u.Hz).to(u.MHz), (bnd[1] * u.Hz).to(u.GHz))
    return path, tp, f_profile, bp, bnd


def call_add_signal(frame, c, comps):
    path, tp, f_profile, bp, bnd = comps
    kw = dict(bounding_f_range=bnd, integrate_path=c["iP"], integrate_t_profile=c["iT"], integrate_f_profile=c["iF"],
              doppler_smearing=c["smear"] != 0, t_subsamples=c["tsub"], f_subsamples=c["fsub"],
              smearing_subsamples=max(c["smear"], 1))
    if bp is None:
        return frame.add_signal(path, tp, f_profile, **kw)
    return frame.add_signal(path, tp, f_profile, bp, **kw)


def frame_state(fr):
    return {"fs": fr.fs.copy(), "ts": fr.ts.copy(), "shape": tuple(fr.shape), "noise": (fr.noise_mean, fr.noise_std),
            "meta": dict(fr.metadata), "rng": repr(fr.rng.bit_generator.state), "dims": (fr.fchans, fr.tchans, fr.df, fr.dt, fr.fch1, fr.ascending),
            "t_start": fr.t_start}


def same_state(a, b):
    for k in a:
        if isinstance(a[k], np.ndarray):
            if not np.array_equal(a[k], b[k]):
                return k
        elif a[k] != b[k]:
            return k
    return None


def replay(beh, gname, workdir, from_file=False):
    """One behaviour = geometry + prior content + 1..3 injections.  Returns a list of Divs (value mismatches of C01 do
    not stop the evaluation of the C06 clauses)."""
    pending = []
    d = _replay(beh, gname, workdir, from_file, pending)
    return pending + ([d] if d is not None else [])


def _replay(beh, gname, workdir, from_file, pending):
    geo, steps = beh["geo"], beh["steps"]
    F, T = geo["F"], geo["T"]
    fr = make_frame(geo, gname, beh["prior"], workdir, from_file)
    # a third of the frames have been through what a cadence-wide injection does to a member that is not the first: the
    # time axis moved in place, the derived axes read meanwhile, the axis moved back.  t_i are the frame's own times.
    if (len(steps) + F + T + len(str(beh["prior"]))) % 3 == 0:
        shift = 7 * fr.dt * fr.tchans
        keep = np.array(fr.ts, copy=True)
        fr.ts += shift
        _ = fr.ts_ext, fr.t_stop, fr.obs_length
        fr.ts -= shift
        fr.ts[:] = keep
    data0 = fr.data.copy()
    tol = tolerance(gname, F)
    total = np.zeros((T, F))
    first_ok = None
    held = []          # (step, the very array object returned, a copy of it): results the caller still holds
    for k, st in enumerate(steps):
        c = st["cfg"]
        comps = components(c, geo, gname, persistent=True)
        arrays = [(name, x, np.array(x, copy=True)) for name, x in zip(("path", "t_profile", "f_profile", "bp_profile"), comps[:4])
                  if isinstance(x, np.ndarray)]
        before = fr.data.copy()
        s0 = frame_state(fr)
        try:
            ret = call_add_signal(fr, c, comps)
            status = "ok"
        except (ValueError, TypeError, IndexError, ZeroDivisionError) as e:
            ret, status = None, type(e).__name__
            err = str(e)[:150]
        if status != st["status"]:
            return Div("C01", "status", st["status"], status if status == "ok" else "%s: %s" % (status, err), k)
        chg = same_state(s0, frame_state(fr))
        if chg is not None:
            return Div("C06", "frame_state." + chg, "unchanged", "changed", k)
        if status != "ok":
            if not np.array_equal(fr.data, before):
                return Div("C06", "data_after_error", "unchanged", "changed", k)
            continue
        want = np.array(st["returned"], dtype=float) / st["den"]
        if ret.shape != want.shape:
            return Div("C01", "returned.shape", list(want.shape), list(ret.shape), k)
        if not np.all(np.isfinite(ret)) or np.max(np.abs(ret - want)) > tol * max(1.0, np.max(np.abs(want))):
            bad = np.unravel_index(int(np.argmax(np.abs(ret - want))), want.shape)
            pending.append(Div("C01", "returned.values", {"pixel": [int(bad[0]), int(bad[1])], "value": float(want[bad]), "matrix": want.tolist()},
                               {"value": float(ret[bad]), "matrix": np.asarray(ret).tolist()}, k))
        # C06: data changed by exactly the returned array; outside the clipped range bit-for-bit untouched
        exp_after = (before.astype(float) + ret).astype(before.dtype)
        if fr.data.dtype != before.dtype or not np.array_equal(fr.data, exp_after):
            return Div("C06", "data_delta", "data_before + returned", {"max_abs": float(np.max(np.abs(fr.data.astype(float) - exp_after.astype(float))))}, k)
        lo, hi = st["lo"], st["hi"]
        outside = np.ones(F, dtype=bool)
        outside[lo:hi] = False
        if fr.data[:, outside].tobytes() != before[:, outside].tobytes() or np.any(ret[:, outside] != 0):
            return Div("C06", "outside_range_touched", "bit-for-bit untouched outside [%d, %d)" % (lo, hi), "modified", k)
        total += ret
        # C06: arrays returned by earlier injections are the caller's: a later injection must not change them
        for k0, r0, c0 in held:
            if not np.array_equal(r0, c0):
                return Div("C06", "earlier_returned_changed", "array returned by injection %d unchanged" % k0, "modified by injection %d" % k, k)
        held.append((k, ret, np.array(ret, copy=True)))
        for name, x, x0 in arrays:
            if not np.array_equal(x, x0):
                return Div("C06", "caller_array_mutated." + name, "unchanged", "modified in place", k)
        if first_ok is None:
            first_ok = (c, comps, ret.copy())
        # C06: the bounded result equals the unbounded result restricted to the range
        if c["bnd"] and hi > lo:
            tw = make_frame(geo, gname, "zero")
            unb = call_add_signal(tw, c, components(c, geo, gname)[:4] + (None,))
            if np.max(np.abs(ret[:, lo:hi] - unb[:, lo:hi])) > tol * max(1.0, float(np.max(np.abs(unb)))):
                return Div("C06", "bounded_is_restriction", "unbounded result restricted to [%d, %d)" % (lo, hi),
                           {"max_abs_diff": float(np.max(np.abs(ret[:, lo:hi] - unb[:, lo:hi])))}, k)
    # C06: injections superpose (any order): final = prior + sum of returned signals
    final = fr.data.astype(float)
    if np.max(np.abs(final - (data0.astype(float) + total))) > (1e-9 + (6e-8 if fr.data.dtype == np.float32 else 0)) * max(1.0, float(np.max(np.abs(final)))) * max(1, len(steps)):
        return Div("C06", "superposition", "prior + sum(returned)", "mismatch", len(steps) - 1)
    oks = [s for s in steps if s["status"] == "ok"]
    if len(oks) >= 2:
        tw = make_frame(geo, gname, beh["prior"], workdir, False)
        for s in reversed(oks):
            call_add_signal(tw, s["cfg"], components(s["cfg"], geo, gname))
        if np.max(np.abs(tw.data.astype(float) - final)) > (1e-9 + (2e-7 if tw.data.dtype == np.float32 else 0)) * max(1.0, float(np.max(np.abs(final)))) * len(oks):
            return Div("C06", "superposition.order", "same data in reverse order", "mismatch", len(steps) - 1)
    # C06: the same signal description injected again adds the same signal (separately computed = successively added)
    if first_ok is not None:
        c, comps, ret1 = first_ok
        ret2 = call_add_signal(fr, c, comps)
        if np.max(np.abs(ret2 - ret1)) > tol * max(1.0, float(np.max(np.abs(ret1)))):
            return Div("C06", "repeat_injection", "same returned signal", {"max_abs_diff": float(np.max(np.abs(ret2 - ret1)))}, 0)
    return None


# ---------------------------------------------------------------------------
# Shipped families: the product / documented average evaluated by the harness from the user's own callables
def documented_average(fr, path, t_profile, f_profile, bp, iP, iT, iF, tsub, fsub, smear, bnd_idx=None):
    """The statement of C01 written out with numpy (harness-owned definition, independent of add_signal)."""
    T, F, dt, df = fr.tchans, fr.fchans, fr.dt, fr.df
    ts = np.asarray(fr.ts, dtype=float)
    rows = T + (1 if smear else 0)
    if iP:
        grid = np.linspace(0, rows * dt, rows * tsub, endpoint=False)
        pv = np.mean(np.reshape(path(grid), (rows, tsub)), axis=1)
    else:
        tt = ts if not smear else np.append(ts, ts[-1] + dt)
        pv = np.asarray(path(tt), dtype=float)
    if iT:
        grid = np.linspace(0, T * dt, T * tsub, endpoint=False)
        tv = np.mean(np.reshape(t_profile(grid), (T, tsub)), axis=1)
    else:
        tv = np.asarray(t_profile(ts), dtype=float) * np.ones(T)
    lo, hi = (0, F) if bnd_idx is None else bnd_idx
    fs = np.asarray(fr.fs, dtype=float)[lo:hi]
    out = np.zeros((T, F))
    if hi <= lo:
        return out
    if iF:
        fgrid = np.linspace(fs[0], fs[0] + len(fs) * df, len(fs) * fsub, endpoint=False)
    else:
        fgrid = fs
    bpv = np.ones(len(fgrid)) if bp is None else np.asarray(bp(fgrid), dtype=float) * np.ones(len(fgrid))
    n = smear if smear else 1
    acc = np.zeros((T, len(fgrid)))
    for i in range(T):
        for k in range(n):
            centre = pv[i] + (k * (pv[i + 1] - pv[i]) / n if smear else 0.0)
            acc[i] += tv[i] * np.asarray(f_profile(fgrid, centre), dtype=float) * bpv / n
    if iF:
        acc = acc.reshape(T, len(fs), fsub).mean(axis=2)
    out[:, lo:hi] = acc
    return out


def shipped_cases(rng, n):
    """Random draws of the shipped path / t_profile / f_profile / bandpass families."""
    cases = []
    for k in range(n):
        gname = ["dyadic", "bl_hires", "coarse"][k % 3]
        g = GEOMS[gname]
        F, T = int(rng.integers(8, 48)), int(rng.integers(2, 12))
        asc = bool(rng.integers(2))
        df, dt = g["df"], g["dt"]
        f_start = g["fmin"] + rng.uniform(-3, F + 3) * df
        drift = rng.uniform(-2.5, 2.5) * df / dt
        pk = int(rng.integers(4))
        tk = int(rng.integers(3))
        fk = int(rng.integers(6))
        width = rng.uniform(0.3, 6.0) * df
        cases.append(dict(gname=gname, F=F, T=T, asc=asc, f_start=f_start, drift=drift, pk=pk, tk=tk, fk=fk, width=width,
                          level=rng.uniform(0.5, 20), period=rng.uniform(1.5, 8) * dt, amp=rng.uniform(0.2, 3) * df,
                          iP=bool(rng.integers(2)), iT=bool(rng.integers(2)), iF=bool(rng.integers(2)),
                          tsub=int(rng.integers(1, 11)), fsub=int(rng.integers(1, 11)),
                          smear=int(rng.choice([0, 0, 1, 3, 7])), bnd=bool(rng.integers(3) == 0), seed=int(rng.integers(1 << 30)),
                          bplevel=rng.uniform(0.1, 1.0)))
    return cases


def build_shipped(case):
    g = GEOMS[case["gname"]]
    F, T, asc = case["F"], case["T"], case["asc"]
    fch1 = g["fmin"] if asc else g["fmin"] + (F - 1) * g["df"]
    fr = stg.Frame(fchans=F, tchans=T, df=g["df"], dt=g["dt"], fch1=fch1, ascending=asc, t_start=0.0, seed=1)

    def mk():
        if case["pk"] == 0:
            path = stg.constant_path(f_start=case["f_start"], drift_rate=case["drift"])
        elif case["pk"] == 1:
            path = stg.squared_path(f_start=case["f_start"], drift_rate=case["drift"] / (g["dt"] * T))
        elif case["pk"] == 2:
            path = stg.sine_path(f_start=case["f_start"], drift_rate=case["drift"], period=case["period"], amplitude=case["amp"])
        else:
            path = stg.simple_rfi_path(f_start=case["f_start"], drift_rate=case["drift"], spread=case["amp"],
                                       spread_type=["uniform", "normal"][case["seed"] % 2],
                                       rfi_type=["stationary", "random_walk"][(case["seed"] // 2) % 2], seed=case["seed"])
        if case["tk"] == 0:
            tp = stg.constant_t_profile(level=case["level"])
        elif case["tk"] == 1:
            tp = stg.sine_t_profile(period=case["period"], phase=0.3 * g["dt"], amplitude=0.4 * case["level"], level=case["level"])
        else:
            tp = stg.periodic_gaussian_t_profile(pulse_width=0.6 * case["period"], period=case["period"], phase=0.1 * g["dt"],
                                                 pulse_offset_width=0.05 * case["period"], pulse_direction="rand", pnum=3,
                                                 amplitude=case["level"], level=case["level"], min_level=0, seed=case["seed"] + 1)
        w = case["width"]
        fp = [stg.box_f_profile(width=w), stg.gaussian_f_profile(width=w), stg.multiple_gaussian_f_profile(width=w),
              stg.lorentzian_f_profile(width=w), stg.voigt_f_profile(g_width=w, l_width=0.7 * w),
              stg.sinc2_f_profile(width=w, trunc=bool(case["seed"] % 2))][case["fk"]]
        bp = stg.constant_bp_profile(level=case["bplevel"])
        return path, tp, fp, bp
    return fr, mk
