"""Adapter binding Noise.tla to Frame noise bookkeeping and voltage-stream noise bookkeeping (C11).
Distribution moments are checked as z-scores against the mean/variance the spec names (numeric projection)."""
import math

import numpy as np
from astropy.stats import sigma_clip
from scipy.stats import norm

import setigen as stg
from setigen.voltage import antenna as v_antenna

ZMAX = 6.5
NPIX = 60000
MEAN_TAB0 = np.array([100.0 + i for i in range(10)])
STD_TAB0 = np.array([10.0 + 0.5 * i for i in range(10)])
MIN_TAB0 = np.array([95.0 + i for i in range(10)])        # about half a deviation below the mean: many samples are truncated


class Div(Exception):
    def __init__(self, field, expected, observed, step=0):
        Exception.__init__(self, field)
        self.field, self.expected, self.observed, self.step = field, expected, observed, step


def moments_ok(x, mean, var, what, step):
    """6.5-sigma acceptance band for sample mean and variance (standard errors from the sample's own 4th moment)."""
    n = x.size
    m = float(np.mean(x))
    v = float(np.var(x))
    se_m = math.sqrt(var / n)
    mu4 = float(np.mean((x - m) ** 4))
    se_v = math.sqrt(max(mu4 - v * v, 1e-300) / n)
    zm = (m - mean) / se_m
    zv = (v - var) / se_v
    if abs(zm) > ZMAX:
        return Div(what + ".mean", {"mean": mean, "band_sigma": ZMAX}, {"sample_mean": m, "z": round(zm, 2)}, step)
    if abs(zv) > ZMAX:
        return Div(what + ".variance", {"variance": var, "band_sigma": ZMAX}, {"sample_variance": v, "z": round(zv, 2)}, step)
    return None


def trunc_moments(m, s, floor):
    a = (floor - m) / s
    Phi, phi = norm.cdf(a), norm.pdf(a)
    e1 = a * Phi + phi
    e2 = a * a * Phi + (1 - Phi) + a * phi
    return m + s * e1, s * s * (e2 - e1 * e1)


_DEFAULT = {}


def default_tables(dt):
    if "raw" not in _DEFAULT:
        import os
        _DEFAULT["raw"] = np.load(os.path.join(os.path.dirname(stg.__file__), "assets", "sample_noise_params.npy"))
    t = _DEFAULT["raw"] * (dt / 1.4316557653333333)
    return t[:, 0], t[:, 1], t[:, 2]


SCALES = (1.0, 4.0e6, 1.0e-3, 1.0e-10)          # intensity units: arbitrary, counts of a real backend, flux-like small numbers


def replay_frame(beh, seed, scale=1.0):
    """scale: physical unit of the abstract means / deviations / table entries / signal level (the property is
    scale free; power-of-ten scales keep nothing exact, so every comparison below is relative)."""
    geo, ks, steps = beh["geo"], beh["k"], beh["steps"]
    MEAN_TAB, STD_TAB, MIN_TAB = MEAN_TAB0 * scale, STD_TAB0 * scale, MIN_TAB0 * scale
    T = geo["T"]
    F = NPIX // T
    dt = geo["dt2"] / 2.0
    df = geo["dfdt10"] / 10.0 / dt
    fr = stg.Frame(fchans=F, tchans=T, df=df, dt=dt, fch1=6e9, ascending=False, t_start=0.0, seed=seed)
    if fr.chi2_df not in ks:
        return Div("chi2_df", ks, fr.chi2_df, 0)
    k = fr.chi2_df
    for n, st in enumerate(steps):
        act = st["act"]
        name = act["name"]
        if name == "Done":
            break
        if name.startswith("Stream") or name.startswith("Bg"):
            continue
        before = fr.data.copy()
        est_before = (fr.noise_mean, fr.noise_std)
        if name in ("AddNoise", "AddNoiseFromObs"):
            kind = act["kind"]
            floor = None
            if name == "AddNoise":
                m, s = float(act["mean"]) * scale, float(act["std"]) * scale
                if kind == "chi2":
                    noise = fr.add_noise(x_mean=m, noise_type="chi2")
                elif kind == "gaussian":
                    noise = fr.add_noise(m, s, noise_type=["gaussian", "normal"][n % 2])
                else:
                    floor = m - s
                    noise = fr.add_noise(m, s, x_min=floor, noise_type="gaussian")
            else:
                default = act.get("tables") == "default"
                if default:
                    # built-in observation tables, scaled to this frame's time resolution
                    mean_tab, std_tab, min_tab = default_tables(dt)
                    noise = fr.add_noise_from_obs(share_index=act["share"], noise_type="chi2" if kind == "chi2" else "gaussian")
                    if st["est"][0] == "param":
                        ok_m = np.any(np.abs(mean_tab - fr.noise_mean) <= 1e-12 * abs(fr.noise_mean)) or \
                            np.any(np.abs(std_tab - fr.noise_mean) <= 1e-12 * abs(fr.noise_mean))
                        if not ok_m:
                            return Div("default_table_entry.mean", "an entry of the built-in table scaled by dt / 1.4316557653333333",
                                       float(fr.noise_mean), n)
                        if kind != "chi2" and not np.any(np.abs(std_tab - fr.noise_std) <= 1e-12 * abs(fr.noise_std)):
                            return Div("default_table_entry.std", "an entry of the built-in table scaled by dt", float(fr.noise_std), n)
                        if kind == "chi2":
                            want_std = math.sqrt(2.0 * k) * fr.noise_mean / k
                            if abs(fr.noise_std - want_std) > 1e-12 * want_std:
                                return Div("estimate_after_first_noise", [float(fr.noise_mean), want_std], [fr.noise_mean, fr.noise_std], n)
                    if noise.shape != before.shape or not np.array_equal(fr.data, before + noise):
                        return Div("returned_is_delta", "data_after == data_before + returned", "mismatch", n)
                    if st["est"][0] == "estimated":
                        c = sigma_clip(fr.data, sigma=3, maxiters=5, masked=False)
                        if fr.noise_mean != np.mean(c) or fr.noise_std != np.std(c):
                            return Div("re-estimate", [float(np.mean(c)), float(np.std(c))], [fr.noise_mean, fr.noise_std], n)
                    continue
                kw = dict(x_mean_array=MEAN_TAB, x_std_array=STD_TAB, share_index=act["share"],
                          noise_type="chi2" if kind == "chi2" else "gaussian")
                if kind == "truncated":
                    kw["x_min_array"] = MIN_TAB
                noise = fr.add_noise_from_obs(**kw)
                m = s = None
            # the returned noise array is exactly what was added to the data
            if noise.shape != before.shape or not np.array_equal(fr.data, before + noise):
                return Div("returned_is_delta", "data_after == data_before + returned", "mismatch", n)
            e = st["est"]
            if e[0] == "param":
                if name == "AddNoise":
                    want_std = math.sqrt(2.0 * k) * m / k if kind == "chi2" else s
                    if fr.noise_mean != m or abs(fr.noise_std - want_std) > 1e-12 * want_std:
                        return Div("estimate_after_first_noise", [m, want_std], [fr.noise_mean, fr.noise_std], n)
                else:
                    # parameters must be entries of the tables; one common row when the index is shared
                    if fr.noise_mean not in MEAN_TAB and fr.noise_mean not in STD_TAB:
                        return Div("table_entry.mean", MEAN_TAB.tolist(), fr.noise_mean, n)
                    m = float(fr.noise_mean)
                    if kind == "chi2":
                        want_std = math.sqrt(2.0 * k) * m / k
                        if abs(fr.noise_std - want_std) > 1e-12 * want_std:
                            return Div("estimate_after_first_noise", [m, want_std], [fr.noise_mean, fr.noise_std], n)
                        s = None
                    else:
                        if fr.noise_std not in STD_TAB:
                            return Div("table_entry.std", STD_TAB.tolist(), fr.noise_std, n)
                        s = float(fr.noise_std)
                        if act["share"] and int(np.where(MEAN_TAB == m)[0][0]) != int(np.where(STD_TAB == s)[0][0]):
                            return Div("shared_index", "mean and std from one table row", [m, s], n)
                        if kind == "truncated":
                            lo = float(noise.min())
                            rows = [i for i in range(10) if MIN_TAB[i] <= lo + 1e-12 * scale]
                            if not rows:
                                return Div("truncated_floor", ">= an entry of the min table", lo, n)
                            if act["share"]:
                                i = int(np.where(MEAN_TAB == m)[0][0])
                                floor = float(MIN_TAB[i])
                                if lo < floor:
                                    return Div("truncated_floor.shared", floor, lo, n)
                                if abs(lo - floor) > 1e-9 * scale:
                                    return Div("shared_index.min", "floor from the same table row %d" % i, lo, n)
            elif e[0] == "estimated":
                c = sigma_clip(fr.data, sigma=3, maxiters=5, masked=False)
                if fr.noise_mean != np.mean(c) or fr.noise_std != np.std(c):
                    return Div("re-estimate", [float(np.mean(c)), float(np.std(c))], [fr.noise_mean, fr.noise_std], n)
            # distribution of the added noise (numeric projection): mean / variance named by the spec
            if name == "AddNoise" or (e[0] == "param" and m is not None):
                if kind == "chi2":
                    d = moments_ok(noise, m, 2.0 * m * m / k, "chi2", n)
                elif kind == "gaussian" and s is not None:
                    d = moments_ok(noise, m, s * s, "gaussian", n)
                elif kind == "truncated" and s is not None and floor is not None:
                    if float(noise.min()) < floor:
                        return Div("truncated_floor", floor, float(noise.min()), n)
                    tm, tv = trunc_moments(m, s, floor)
                    d = moments_ok(noise, tm, tv, "truncated", n)
                else:
                    d = None
                if d is not None:
                    return d
        elif name == "AddNoiseFromObsRefused":
            which = act["which"]
            mean_t, std_t, min_t = MEAN_TAB, STD_TAB, None
            if which == "std_longer":
                std_t = np.append(STD_TAB, STD_TAB[:2])
            elif which == "min_longer":
                min_t = np.append(MIN_TAB, MIN_TAB[:2])
            else:
                min_t = MIN_TAB[:1]          # any drawn index but 0 would be out of range: refused beforehand all the same
            rng_before = repr(fr.rng.bit_generator.state)
            try:
                fr.add_noise_from_obs(x_mean_array=mean_t, x_std_array=std_t, x_min_array=min_t, share_index=True, noise_type="gaussian")
                return Div("mismatched_tables_accepted", "IndexError", "noise added", n)
            except IndexError:
                pass
            if not np.array_equal(fr.data, before) or (fr.noise_mean, fr.noise_std) != est_before or repr(fr.rng.bit_generator.state) != rng_before:
                return Div("refused_call_left_a_trace", "data, estimates and generator state unchanged",
                           {"data_changed": bool(not np.array_equal(fr.data, before)), "estimates": [fr.noise_mean, fr.noise_std],
                            "generator_advanced": repr(fr.rng.bit_generator.state) != rng_before}, n)
        elif name == "ZeroData":
            fr.zero_data()
            if np.any(fr.data != 0) or fr.noise_mean != 0 or fr.noise_std != 0:
                return Div("zero_data", [0, 0], [fr.noise_mean, fr.noise_std], n)
        elif name == "AddSignal":
            fr.add_constant_signal(f_start=fr.get_frequency(F // 2), drift_rate=0.0, level=50.0 * scale, width=2 * df, f_profile_type="gaussian")
            if (fr.noise_mean, fr.noise_std) != est_before:
                return Div("signal_leaves_estimate", list(est_before), [fr.noise_mean, fr.noise_std], n)
        elif name == "QuerySnr":
            snr = float(act["snr"])
            if st["est"][0] == "zero":
                for fn in (fr.get_intensity, fr.get_snr):
                    try:
                        fn(snr)
                        return Div("snr_without_noise", "ValueError", "returned a value", n)
                    except ValueError:
                        pass
            else:
                inten = fr.get_intensity(snr=snr)
                want = snr * fr.noise_std / math.sqrt(T)
                if abs(inten - want) > 1e-12 * abs(want) or abs(fr.get_snr(inten) - snr) > 1e-10 * snr:
                    return Div("intensity_snr", [want, snr], [inten, fr.get_snr(inten)], n)
        # estimate class after the step
        e = st["est"]
        zero_now = (fr.noise_mean == 0 and fr.noise_std == 0)
        if (e[0] == "zero") != zero_now:
            return Div("estimate_class", e[0], "zero" if zero_now else "non-zero", n)
    return None


def replay_streams(beh, seed):
    """Voltage side.  Model variances are integers; update_noise() replaces a book-kept deviation by an estimate from
    samples, so after an update the expectation carries the measured correction (corr / bgcorr = measured - model) and
    the measured value itself is judged statistically."""
    steps = beh["steps"]
    arr = v_antenna.MultiAntennaArray(num_antennas=2, sample_rate=1024.0, fch1=0, ascending=True, num_pols=2, delays=[0, 1], seed=seed)
    used = False
    corr = [[0.0, 0.0], [0.0, 0.0]]
    bgcorr = [0.0, 0.0]
    NEST = 20000
    src_rng = np.random.default_rng(seed + 77)

    def source(std):
        return lambda ts: std * src_rng.standard_normal(len(ts))

    for n, st in enumerate(steps):
        act = st["act"]
        name = act["name"]
        if name == "StreamAddNoise":
            arr.antennas[act["a"] - 1].streams[act["p"] - 1].add_noise(0.0, float(act["std"]))
        elif name == "BgAddNoise":
            arr.bg_streams[act["p"] - 1].add_noise(0.0, float(act["std"]))
        elif name == "StreamAddSource":
            arr.antennas[act["a"] - 1].streams[act["p"] - 1].add_signal(source(float(act["std"])))
        elif name == "BgAddSource":
            arr.bg_streams[act["p"] - 1].add_signal(source(float(act["std"])))
        elif name == "StreamUpdateNoise":
            a, p = act["a"] - 1, act["p"] - 1
            stream = arr.antennas[a].streams[p]
            clock = (stream.t_start, stream.start_obs)
            stream.update_noise(stats_calc_num_samples=NEST)
            if (stream.t_start, stream.start_obs) != clock:
                return Div("update_noise.clock", list(clock), [stream.t_start, stream.start_obs], n)
            want = float(st["own"][a][p])
            got = float(stream.noise_std) ** 2
            # the estimate is taken from the stream's own samples (the shared background is book-kept separately)
            if abs(math.sqrt(got) - math.sqrt(want)) > ZMAX * math.sqrt(want / (2.0 * NEST)):
                return Div("update_noise.estimate", math.sqrt(want), math.sqrt(got), n)
            corr[a][p] = got - want
        elif name == "BgUpdateNoise":
            p = act["p"] - 1
            arr.bg_streams[p].update_noise(stats_calc_num_samples=NEST)
            want = float(st["bg"][p])
            got = float(arr.bg_streams[p].noise_std) ** 2
            if abs(math.sqrt(got) - math.sqrt(want)) > ZMAX * math.sqrt(want / (2.0 * NEST)):
                return Div("bg_update_noise.estimate", math.sqrt(want), math.sqrt(got), n)
            bgcorr[p] = got - want
        elif name == "Done":
            break
        else:
            continue
        used = True
        for a in range(2):
            for p in range(2):
                s = arr.antennas[a].streams[p]
                got = [float(s.noise_std) ** 2, float(s.bg_noise_std) ** 2, float(s.get_total_noise_std()) ** 2]
                want = [st["own"][a][p] + corr[a][p], st["bg"][p] + bgcorr[p], st["total"][a][p] + corr[a][p] + bgcorr[p]]
                if any(abs(g - w) > 1e-9 * max(1.0, w) for g, w in zip(got, want)):
                    return Div("quadrature[%d][%d]" % (a, p), {"own_var": want[0], "bg_var": want[1], "total_var": want[2]},
                               {"own_var": got[0], "bg_var": got[1], "total_var": got[2]}, n)
    if not used:
        return None
    last = [s for s in steps if s["act"]["name"] != "Done"][-1]
    # refreshing the background estimate from samples keeps every antenna stream's copy equal to the background's own
    for p in range(2):
        realised_bg = last["bg"][p] + last["xbg"][p]
        if realised_bg > 0:
            arr.bg_streams[p].update_noise(stats_calc_num_samples=NEST)
            bgstd = float(arr.bg_streams[p].noise_std)
            se = math.sqrt(realised_bg / (2.0 * NEST))
            if abs(bgstd - math.sqrt(realised_bg)) > ZMAX * se:
                return Div("bg_update_noise.estimate", math.sqrt(realised_bg), bgstd, len(steps))
            for a in range(2):
                s = arr.antennas[a].streams[p]
                own_now = last["own"][a][p] + corr[a][p]
                if float(s.bg_noise_std) != bgstd or abs(float(s.get_total_noise_std()) ** 2 - (own_now + bgstd ** 2)) > 1e-9 * (1 + last["total"][a][p]):
                    return Div("bg_update_noise.propagation", {"bg_std": bgstd}, {"stream_bg_std": float(s.bg_noise_std),
                                                                                "total": float(s.get_total_noise_std())}, len(steps))
    # the realised voltages have the deviation of everything that was added (booked or not)
    arr.reset_start()
    v = arr.get_samples(40000)
    for a in range(2):
        for p in range(2):
            tot = last["own"][a][p] + last["xown"][a][p] + last["bg"][p] + last["xbg"][p]
            if tot > 0:
                d = moments_ok(np.asarray(v[a][p], dtype=float), 0.0, tot, "voltage[%d][%d]" % (a, p), len(steps))
                if d is not None and d.field.endswith("variance"):
                    return d
    return None
