"""Adapters for RawFiles.tla: (R) spec-generated directories written by the harness's own GUPPI writer and read by the
library's readers under every listing order; (T) real recordings with varied header dictionaries parsed by the
harness's independent parser into RawFilesTrace events."""
import collections
import os

import numpy as np

from setigen.voltage import antenna as v_antenna
from setigen.voltage import backend as v_backend
from setigen.voltage import polyphase_filterbank as v_pfb
from setigen.voltage import quantization as v_q
from setigen.voltage import raw_utils

from .. import guppi


class Div(Exception):
    def __init__(self, field, expected, observed):
        Exception.__init__(self, field)
        self.field, self.expected, self.observed = field, expected, observed


BASE_KEYS = ["BACKEND", "NBITS", "NPOL", "OBSNCHAN", "BLOCSIZE", "TBIN", "CHAN_BW", "OBSBW", "OBSFREQ", "SCANLEN", "PKTIDX"]


def write_directory(d, workdir, stem="inp"):
    """Write the directory described by the spec record d with the harness writer."""
    hdr = collections.OrderedDict()
    hdr["BACKEND"] = "GUPPI"
    hdr["NBITS"] = 8
    hdr["NPOL"] = 1
    hdr["OBSNCHAN"] = 2
    hdr["BLOCSIZE"] = d["blocsize"]
    hdr["TBIN"] = 0.0078125
    hdr["CHAN_BW"] = 0.000128
    hdr["OBSBW"] = 0.000256
    hdr["OBSFREQ"] = 0.000192
    hdr["SCANLEN"] = 1.0
    hdr["PKTIDX"] = 0
    if d["dio"] == "zero":
        hdr["DIRECTIO"] = 0
    elif d["dio"] == "one":
        hdr["DIRECTIO"] = 1
    k = 0
    while len(hdr) + 1 < d["cards"]:
        # includes keys that merely start with the letters END (only a card that IS "END" terminates a header)
        hdr[("FILL%03d" % k) if k != 2 else "ENDFREQ"] = [k, 0.5 * k, "v%d" % k][k % 3]
        k += 1
    if len(hdr) + 1 != d["cards"]:
        raise RuntimeError("cannot realise %d cards" % d["cards"])
    rng = np.random.default_rng(d["cards"])
    paths = []
    for i in range(d["nfiles"]):
        nb = d["last"] if i == d["nfiles"] - 1 else d["bpf"]
        blocks = []
        for j in range(nb):
            h = collections.OrderedDict(hdr)
            h["PKTIDX"] = (i * d["bpf"] + j) * 16
            blocks.append((h, rng.integers(-100, 100, size=d["blocsize"], dtype=np.int8).tobytes()))
        p = os.path.join(workdir, "%s.%04d.raw" % (stem, i))
        guppi.write_file(p, blocks)
        paths.append(p)
    return os.path.join(workdir, stem), paths, hdr


def check_readers(exp, workdir):
    """exp: the Query record emitted by RawFiles_Gen.  Returns a Div or None."""
    d = exp["dir"]
    stem, paths, hdr = write_directory(d, workdir)
    try:
        # independent parser first (sanity of the harness writer/parser pair)
        for i, p in enumerate(paths):
            blocks = guppi.parse_file(p)
            nb = d["last"] if i == d["nfiles"] - 1 else d["bpf"]
            if len(blocks) != nb or blocks[0]["pad"] != exp["pad"] or blocks[0]["ncards"] != d["cards"]:
                raise RuntimeError("harness writer/parser disagree with the spec: %r" % ((len(blocks), nb, blocks[0]["pad"], exp["pad"]),))
        got = raw_utils.read_header(paths[0])
        if len(got) != d["cards"] - 1 or list(got.keys()) != list(hdr.keys()):
            return Div("read_header.keys", list(hdr.keys()), list(got.keys()))
        for k, v in hdr.items():
            if str(got[k]).strip() != (str(v) if not isinstance(v, str) else v):
                return Div("read_header.value", {k: v}, {k: got[k]})
        for i, p in enumerate(paths):
            n = raw_utils.get_blocks_in_file(p)
            if n != exp["blocksInFile"][i]:
                return Div("get_blocks_in_file", exp["blocksInFile"][i], n)
        n = raw_utils.get_blocks_per_file(stem)
        if n != exp["blocksPerFile"]:
            return Div("get_blocks_per_file", exp["blocksPerFile"], n)
        listing = [paths[i] for i in exp["listing"]]
        orig = raw_utils.glob.glob
        raw_utils.glob.glob = lambda pattern: list(listing)
        try:
            n = raw_utils.get_total_blocks(stem)
        finally:
            raw_utils.glob.glob = orig
        if n != exp["totalBlocks"]:
            return Div("get_total_blocks", exp["totalBlocks"], n)
        rp = raw_utils.get_raw_params(stem, start_chan=0)
        if rp["block_size"] != d["blocsize"] or rp["num_bits"] != 8 or rp["num_chans"] != 2 or rp["num_pols"] != 1:
            return Div("get_raw_params", {"block_size": d["blocsize"], "num_bits": 8, "num_chans": 2, "num_pols": 1},
                       {k: rp[k] for k in ("block_size", "num_bits", "num_chans", "num_pols")})
    finally:
        for p in paths:
            os.remove(p)
    return None


# ---------------------------------------------------------------------------
OWNED = ["NBITS", "NPOL", "OBSNCHAN", "NANTS", "BLOCSIZE", "TBIN", "CHAN_BW", "OBSBW", "OBSFREQ", "SCANLEN"]


def record_case(case, workdir):
    """Make one real recording described by `case` and return (trace events, info)."""
    rate, B, taps = case["rate"], case["B"], case["taps"]
    kw = dict(sample_rate=rate, fch1=case["fch1"], ascending=case["ascending"], num_pols=case["pols"], seed=case["seed"])
    if case["nant"] == 1:
        src = v_antenna.Antenna(**kw)
        streams = src.streams
    else:
        src = v_antenna.MultiAntennaArray(num_antennas=case["nant"], delays=[0] * case["nant"], **kw)
        streams = [s for a in src.antennas for s in a.streams]
    for s in streams:
        s.add_noise(0, 1)
    T = taps * case["U"]
    bps = 2 * case["pols"] * case["bits"] // 8
    block_size = case["nant"] * case["nch"] * T * bps
    be = v_backend.RawVoltageBackend(
        src, digitizer=v_q.RealQuantizer(target_fwhm=32, num_bits=8), filterbank=v_pfb.PolyphaseFilterbank(num_taps=taps, num_branches=B),
        requantizer=v_q.ComplexQuantizer(target_fwhm=32 if case["bits"] == 8 else 5, num_bits=case["bits"]),
        start_chan=case["start_chan"], num_chans=case["nch"], block_size=block_size, blocks_per_file=case["bpf"],
        num_subblocks=case["S"])
    user = collections.OrderedDict()
    for k in range(case["extra"]):
        user[("U%02dKEY" % k) if k != 3 else "ENDMJD"] = [3 * k + 1, 0.125 * k + 0.5, "val%d" % k, -7 * k][k % 4]
    if case["override"]:
        user.update({"NBITS": 2, "NPOL": 9, "OBSNCHAN": 999, "BLOCSIZE": 12345, "TBIN": 1.0, "CHAN_BW": 7.5,
                     "OBSBW": 1.5, "OBSFREQ": 1.0, "SCANLEN": 99.0})
        if case["nant"] > 1:
            user["NANTS"] = 17
    if case.get("overlap"):
        # user cards whose keys also exist in the header template, including zero values
        user.update({"SCAN": 0, "DROPTOT": 0.0, "FFTLEN": 256, "NBIN": 0, "BANKNAM": "MYBANK"})
    if case["directio"] is not None:
        user["DIRECTIO"] = case["directio"]
    if case["pkt0"]:
        user["PKTIDX"] = case["pkt0"]
    given = dict(user)
    stem = os.path.join(workdir, "c04")
    if case.get("prerecord"):
        # an earlier recording on the same backend with a different header length (and padding): must leave nothing behind
        pre = collections.OrderedDict(("P%02dCARD" % k, k) for k in range(7))
        pre["DIRECTIO"] = 1
        be.record(os.path.join(workdir, "pre"), num_blocks=1, length_mode="num_blocks", header_dict=pre, load_template=case["template"],
                  verbose=False)
        for fn in os.listdir(workdir):
            if fn.startswith("pre."):
                os.remove(os.path.join(workdir, fn))
    be.record(stem, num_blocks=case["blocks"], length_mode="num_blocks", header_dict=user, load_template=case["template"],
              verbose=False)
    tbin = B / rate
    chan_bw = (1 if case["ascending"] else -1) * rate / B
    want = {"NBITS": case["bits"], "NPOL": case["pols"], "OBSNCHAN": case["nch"] * case["nant"], "BLOCSIZE": block_size,
            "TBIN": tbin, "CHAN_BW": chan_bw * 1e-6, "OBSBW": chan_bw * case["nch"] * 1e-6,
            "OBSFREQ": (case["fch1"] + (case["start_chan"] + (case["nch"] - 1) / 2.0) * chan_bw) * 1e-6,
            "SCANLEN": case["blocks"] * T * tbin}
    if case["nant"] > 1:
        want["NANTS"] = case["nant"]
    events = [{"e": "Begin", "blocsize": block_size, "blocks": case["blocks"], "bpf": case["bpf"], "pkt0": case["pkt0"], "spb": T}]
    names = sorted(fn for fn in os.listdir(workdir) if fn.startswith("c04."))
    detail = []
    try:
        for i, fn in enumerate(names):
            if fn != "c04.%04d.raw" % i:
                raise guppi.FramingError("unexpected file name %s" % fn)
            blocks = guppi.parse_file(os.path.join(workdir, fn))
            size = os.path.getsize(os.path.join(workdir, fn))
            for j, blk in enumerate(blocks):
                h = blk["hdr"]
                owned_bad = []
                for k, v in want.items():
                    g = h.get(k)
                    if isinstance(v, float):
                        ok = isinstance(g, (int, float)) and abs(float(g) - v) <= 1e-12 * abs(v)
                    else:
                        ok = (g == v)
                    if not ok:
                        owned_bad.append((k, v, g))
                user_bad = []
                for k, v in given.items():
                    if k in OWNED or k == "PKTIDX":
                        continue
                    g = h.get(k)
                    if k == "DIRECTIO":
                        try:
                            g, v = int(g), int(v)
                        except (TypeError, ValueError):
                            pass
                    if isinstance(v, float):
                        ok = isinstance(g, (int, float)) and float(g) == v
                    else:
                        ok = (g == v)
                    if not ok:
                        user_bad.append((k, v, g))
                dio = h.get("DIRECTIO", 0)
                try:
                    dio = int(dio)
                except (TypeError, ValueError):
                    dio = 0
                # the parser consumed `pad` bytes by the rule; measure what the writer actually left before the data:
                # block offsets are consecutive, so the real padding is (next offset - offset) - header - BLOCSIZE
                nxt = blocks[j + 1]["offset"] if j + 1 < len(blocks) else size
                real_pad = nxt - blk["offset"] - 80 * blk["ncards"] - len(blk["data"])
                events.append({"e": "Block", "file": i, "idx": j, "cards": blk["ncards"], "directio": 1 if dio != 0 else 0,
                               "pad": real_pad, "datalen": len(blk["data"]), "blocsize": int(h.get("BLOCSIZE", -1)),
                               "pktidx": int(h.get("PKTIDX", -1)), "owned": not owned_bad, "user": not user_bad})
                detail.append({"owned_bad": owned_bad, "user_bad": user_bad})
        events.append({"e": "End", "nfiles": len(names)})
    except guppi.FramingError as e:
        events.append({"e": "Malformed", "why": str(e)[:200]})
    finally:
        for fn in names:
            os.remove(os.path.join(workdir, fn))
    return events, detail
