"""Random drivers whose executions are recorded (harness/record_cadence.py) and validated by spec/CadenceTrace.tla.

Unlike the spec -> code replay of Cadence.tla (fixed pool of 12 objects, one cadence), the drivers here are free-form:
up to 16 objects in 3 compatibility classes plus near-misses and non-frames, several cadences alive at once (slices and
selections are operated on further, frames are shared between them), order strings of any length (including too
short ones), deep copies, pickles, cadence-wide injections with callbacks that raise on the k-th frame."""
import copy
import pickle
import random

import numpy as np

import setigen as stg

from .. import record_cadence as rc


class Boom(Exception):
    pass


def make_pool(rnd):
    """Frames on exact 10-microsecond tick times (the trace tolerance is about rounding, not about the driver)."""
    pool = []
    df, dt, fch1 = 2.5, 1.25, 6.0e9
    t = 1.7e9 + rnd.randrange(0, 1000)
    for k in range(rnd.randrange(5, 9)):                    # compatible class 1, both orientations of the same band
        tch = rnd.choice([2, 3, 4])
        asc = rnd.random() < 0.3
        f1 = fch1 - 7 * df if asc else fch1
        if k % 3 == 1:          # a frame built from an array, without metadata argument
            fr = stg.Frame.from_data(df, dt, f1, asc, np.zeros((tch, 8)), seed=k)
            fr.t_start = t
            pool.append(fr)
        else:
            pool.append(stg.Frame(fchans=8, tchans=tch, df=df, dt=dt, fch1=f1, ascending=asc, t_start=t, seed=k))
        t += tch * dt + rnd.choice([0.0, 2.5, 30.0, 0.00001 * rnd.randrange(1, 99999)])
    for k in range(rnd.randrange(1, 4)):                    # class 2: another channel count
        pool.append(stg.Frame(fchans=6, tchans=2, df=df, dt=dt, fch1=fch1, ascending=False, t_start=t + 5 * k, seed=20 + k))
    pool.append(stg.Frame(fchans=8, tchans=2, df=df * (1 + 2.0 ** -20), dt=dt, fch1=fch1, ascending=False, t_start=t, seed=31))   # near-miss df
    pool.append(stg.Frame(fchans=8, tchans=2, df=df, dt=dt * 2, fch1=fch1, ascending=False, t_start=t, seed=32))
    pool.append(stg.Frame(fchans=8, tchans=2, df=df, dt=dt, fch1=fch1 + df, ascending=False, t_start=t, seed=33))                 # other fmin
    pool += [object(), 5, "frame", None][:rnd.randrange(1, 4)]
    return pool


def drive(seed, nops=14, inject_heavy=False):
    """One recorded execution.  Returns the trace (dict for CadenceTrace.tla)."""
    rnd = random.Random(seed)
    rec = rc.Recorder()
    with rc.recording(rec):
        pool = make_pool(rnd)
        good = [f for f in pool if isinstance(f, stg.Frame) and f.fchans == 8 and rec.key_of(f) == rec.key_of(pool[0])]
        cads = []

        def pick_obj():
            r = rnd.random()
            if r < 0.7:
                return rnd.choice(good)
            return rnd.choice(pool)

        def pick_list():
            return [pick_obj() for _ in range(rnd.randrange(0, 4))]

        def order():
            return "".join(rnd.choice("ABCD") for _ in range(rnd.choice([2, 3, 6, 6, 6, 8, 10])))

        def new():
            lst = [rnd.choice(good) for _ in range(rnd.randrange(0, 5))]
            if rnd.random() < 0.15:
                lst.insert(rnd.randrange(0, len(lst) + 1), rnd.choice(pool))
            kw = {}
            if rnd.random() < 0.3:
                kw = {"t_slew": rnd.choice([0, 15, 2.5]), "t_overwrite": True}
            try:
                if rnd.random() < 0.5:
                    c = stg.OrderedCadence(frame_list=lst, order=order(), **kw)
                else:
                    c = stg.Cadence(frame_list=lst, **kw) if (lst or rnd.random() < 0.5) else stg.Cadence()
                cads.append(c)
            except (TypeError, AttributeError, IndexError):
                pass

        new()
        for _ in range(nops):
            if not cads or rnd.random() < 0.08:
                new()
                continue
            c = rnd.choice(cads)
            n = len(c)
            i = rnd.randrange(-n - 2, n + 3)
            op = rnd.choice(["insert", "append", "extend", "iadd", "setitem", "delitem", "delslice", "pop", "remove", "reverse",
                             "getitem", "getslice", "getidx", "getmask", "bylabel", "setorder", "overwrite", "consolidate",
                             "inject", "inject", "copy", "pickle", "iterate", "setslice", "clear"] + (["inject", "overwrite"] * 8 if inject_heavy else []))
            try:
                if op == "insert":
                    c.insert(i, pick_obj())
                elif op == "append":
                    c.append(pick_obj())
                elif op == "extend":
                    c.extend(pick_list())
                elif op == "iadd":
                    c += pick_list()
                elif op == "setitem":
                    c[i] = pick_obj()
                elif op == "setslice":
                    c[0:1] = [rnd.choice(good)]
                elif op == "delitem":
                    del c[i]
                elif op == "delslice":
                    del c[slice(rnd.choice([None, i]), rnd.choice([None, rnd.randrange(-n - 1, n + 2)]), rnd.choice([None, 1, 2, -1]))]
                elif op == "pop":
                    c.pop() if rnd.random() < 0.5 else c.pop(i)
                elif op == "remove":
                    c.remove(pick_obj())
                elif op == "reverse":
                    c.reverse()
                elif op == "clear" and rnd.random() < 0.3:
                    c.clear()
                elif op == "getitem":
                    c[i]
                elif op == "getslice":
                    cads.append(c[slice(rnd.choice([None, i]), rnd.choice([None, rnd.randrange(-n - 1, n + 2)]), rnd.choice([None, 1, 2, -1, -2]))])
                elif op == "getidx" and n > 0:
                    idx = [rnd.randrange(-n - 1, n + 1) for _ in range(rnd.randrange(1, 4))]
                    cads.append(c[rnd.choice([idx, tuple(idx), np.array(idx)])])
                elif op == "getmask" and n > 0:
                    cads.append(c[np.array([rnd.random() < 0.5 for _ in range(n)])])
                elif op == "bylabel" and isinstance(c, stg.OrderedCadence):
                    cads.append(c.by_label(rnd.choice("ABCD")))
                elif op == "setorder" and isinstance(c, stg.OrderedCadence):
                    c.set_order(order())
                elif op == "overwrite":
                    c.t_slew = rnd.choice([0, 15, 2.5, 0.00001 * rnd.randrange(1, 99999)])
                    c.overwrite_times()
                elif op == "consolidate":
                    c.consolidate()
                elif op == "copy":
                    cads.append(copy.deepcopy(c))
                elif op == "pickle":
                    cads.append(pickle.loads(pickle.dumps(c)))
                elif op == "iterate":
                    for _f in c:
                        pass
                elif op == "inject" and n > 0:
                    kth = rnd.choice([None, None, rnd.randrange(0, n)])
                    calls = {"n": 0}

                    def t_profile(ts, _calls=calls, _kth=kth):
                        _calls["n"] += 1
                        if _kth is not None and _calls["n"] == _kth + 1:
                            raise Boom("callback fails on frame %d" % _kth)
                        return np.ones(len(ts))
                    c.add_signal(stg.constant_path(f_start=c[0].get_frequency(3), drift_rate=0.05), t_profile,
                                 stg.box_f_profile(width=2 * c.df), stg.constant_bp_profile(level=1))
            except (TypeError, AttributeError, IndexError, ValueError, KeyError, Boom):
                pass
            if len(cads) > 6:
                cads.pop(rnd.randrange(0, len(cads)))
    return rec.trace()
