"""Adapter binding CadenceInject.tla to Cadence.add_signal / overwrite_times / consolidate (C16)."""
import numpy as np

import setigen as stg

from . import injection as inj

TBASE = 4096.0


class Div(Exception):
    def __init__(self, field, expected, observed):
        Exception.__init__(self, field)
        self.field, self.expected, self.observed = field, expected, observed


class Boom(Exception):
    pass


class Abort(BaseException):
    """What a user interrupt looks like (KeyboardInterrupt-style: not derived from Exception)."""


def build(cad, gname, ordered=False, **kw):
    g = inj.GEOMS[gname]
    F, asc = cad["F"], cad["asc"]
    fch1 = g["fmin"] if asc else g["fmin"] + (F - 1) * g["df"]
    frames = [stg.Frame(fchans=F, tchans=T, df=g["df"], dt=g["dt"], fch1=fch1, ascending=asc,
                        t_start=TBASE + s * g["dt"], seed=5 + i) for i, (s, T) in enumerate(zip(cad["starts"], cad["T"]))]
    if ordered:
        return frames, stg.OrderedCadence(frame_list=frames, order="ABACAD", **kw)
    return frames, stg.Cadence(frame_list=frames, **kw)


def select(c, sel):
    if sel == "all":
        return c
    if sel == "slice":
        return c[0::2]
    return c[1:]


def check(rec, gname, ordered=False):
    cad, sig = rec["cad"], rec["sig"]
    g = inj.GEOMS[gname]
    frames, c = build(cad, gname, ordered)
    ts0 = [f.ts.copy() for f in frames]
    t00 = [f.t_start for f in frames]
    geo0 = {"F": cad["F"], "T": max(cad["T"]), "asc": cad["asc"]}
    path, tp, fprof, bp, bnd = inj.components(sig, geo0, gname)
    calls = [0]
    exc_cls = Abort if (len(cad["starts"]) + rec["raiseAt"]) % 2 else Boom
    armed = [False]

    def path_wrapped(t):
        calls[0] += 1
        if armed[0] and rec["raiseAt"] and calls[0] == rec["raiseAt"]:
            raise exc_cls("user callback failed")
        return path(t)
    kw = dict(integrate_path=sig["iP"], integrate_t_profile=sig["iT"], integrate_f_profile=sig["iF"],
              doppler_smearing=sig["smear"] != 0, t_subsamples=sig["tsub"], f_subsamples=sig["fsub"],
              smearing_subsamples=max(sig["smear"], 1))
    raised = False
    for r, sel in enumerate(rec["sels"]):
        if r == 1 and rec.get("retime", -1) >= 0:
            # between the two injections the start times change (overwrite_times with a new slew time, or one frame's
            # start time assigned directly): the second injection owes the offsets of the start times as they are now
            if rec["retime"] == 7:
                frames[-1].t_start = frames[-1].t_start + 2 * g["dt"]
            else:
                c.t_slew = rec["retime"] * g["dt"]
                c.overwrite_times()
            for i, f in enumerate(frames):
                e = TBASE + rec["starts2"][i] * g["dt"]
                if abs(f.t_start - e) > 4 * np.spacing(e) * max(1, i):
                    raise Div("retime.t_start[%d]" % i, e, f.t_start)
            t00 = [f.t_start for f in frames]
        calls[0] = 0
        armed[0] = (r == len(rec["sels"]) - 1)
        try:
            if sel == "direct":
                for f in frames:                      # every frame on its own, with its own time axis
                    f.add_signal(path_wrapped, tp, fprof, bp, **kw)
            else:
                select(c, sel).add_signal(path_wrapped, tp, fprof, bp, **kw)
        except (Boom, Abort):
            raised = True
        except Exception as e:
            raise Div("exception", "ok" if not rec["raised"] else "Boom", "%s: %s" % (type(e).__name__, e))
    if raised != rec["raised"]:
        raise Div("raised", rec["raised"], raised)
    # every frame's time axis equals what it was before (also after a raising callback)
    for i, f in enumerate(frames):
        mag = abs(ts0[i][-1]) + abs(t00[i] - t00[0]) + g["dt"]
        if f.ts.shape != ts0[i].shape or np.max(np.abs(f.ts - ts0[i])) > 4 * np.spacing(mag) or f.t_start != t00[i]:
            raise Div("ts_restored[%d]" % i, ts0[i].tolist(), f.ts.tolist())
    # every frame received single-frame injection evaluated at its own times shifted by its relative start time
    tol = inj.tolerance(gname, cad["F"])
    for i, f in enumerate(frames):
        fr = rec["frames"][i]
        if not fr["offsets"]:
            want = np.zeros((cad["T"][i], cad["F"]))
        else:
            want = np.array(fr["added"], dtype=float) / rec["den"]
        if f.data.shape != want.shape or np.max(np.abs(f.data - want)) > tol * max(1.0, float(np.max(np.abs(want)))):
            bad = np.unravel_index(int(np.argmax(np.abs(f.data - want))), want.shape)
            raise Div("frame_data[%d]" % i, {"offset_rows": fr["offsets"], "pixel": [int(bad[0]), int(bad[1])], "value": float(want[bad])},
                      {"value": float(f.data[bad])})
    # consolidation concatenates data in order with absolute times
    cf = c.consolidate()
    want = np.concatenate([f.data for f in frames], axis=0)
    if cf.data.shape != want.shape or not np.array_equal(cf.data, want) or cf.tchans != sum(cad["T"]):
        raise Div("consolidate.data", "rows of every frame in cadence order", "mismatch")
    wts = np.concatenate([f.ts + f.t_start for f in frames])
    if cf.ts.shape != wts.shape or np.max(np.abs(cf.ts - wts)) > 4 * np.spacing(np.max(np.abs(wts))) or not np.array_equal(cf.fs, frames[0].fs):
        raise Div("consolidate.ts", wts.tolist(), cf.ts.tolist())
    if abs(cf.t_start - frames[0].t_start) > 0 or bool(cf.ascending) != cad["asc"]:
        raise Div("consolidate.meta", [frames[0].t_start, cad["asc"]], [cf.t_start, bool(cf.ascending)])


def check_overwrite(rec, gname, slew_rows):
    """Overwriting start times spaces consecutive frames by exactly the slew time; sub-cadences do not re-space the parent."""
    cad = rec["cad"]
    g = inj.GEOMS[gname]
    want = rec["overwrite0"] if slew_rows == 0 else rec["overwrite3"]
    frames, c = build(cad, gname, t_slew=slew_rows * g["dt"], t_overwrite=True)
    for i, f in enumerate(frames):
        e = TBASE + want[i] * g["dt"]
        if abs(f.t_start - e) > 4 * np.spacing(e) * max(1, i):
            raise Div("overwrite_times[%d]" % i, e, f.t_start)
    sl = np.asarray(c.slew_times, dtype=float)
    if len(sl) != len(frames) - 1 or (len(sl) and np.max(np.abs(sl - slew_rows * g["dt"])) > 8 * np.spacing(TBASE + want[-1] * g["dt"])):
        raise Div("slew_times", [slew_rows * g["dt"]] * (len(frames) - 1), sl.tolist())
    before = [f.t_start for f in frames]
    if len(frames) >= 2:
        for sub in (c[0::2], c[1:], c[[0, len(frames) - 1]]):
            sub.add_signal(stg.constant_path(f_start=frames[0].get_frequency(2), drift_rate=0.1 * g["df"] / g["dt"]),
                           stg.constant_t_profile(level=1), stg.box_f_profile(width=2 * g["df"]), stg.constant_bp_profile(level=1))
            after = [f.t_start for f in frames]
            if after != before:
                raise Div("subset_keeps_parent_times", before, after)
