"""Harness-owned GUPPI RAW framing parser and writer (independent of setigen.voltage.raw_utils).

A file is a sequence of blocks; a block is 80-byte cards up to and including END, then zero padding up to
the next multiple of 512 bytes iff DIRECTIO is non-zero, then BLOCSIZE data bytes."""
import numpy as np


class FramingError(Exception):
    pass


def parse_card(card):
    text = card.decode("ascii", "replace")
    key = text[:8].strip()
    if text[8:9] != "=":
        raise FramingError("card without '=' at column 9: %r" % text[:30])
    raw = text[9:].strip()
    if raw.startswith("'"):
        val = raw.strip("'").strip()
    else:
        try:
            val = int(raw)
        except ValueError:
            try:
                val = float(raw)
            except ValueError:
                val = raw
    return key, val, raw


def parse_file(path, strict_padding=True):
    """Returns a list of blocks: dict(cards=[(key,val,raw)], hdr={key:val}, ncards (incl END), pad, data(bytes),
    offset).  Raises FramingError on anything malformed."""
    blob = open(path, "rb").read()
    pos, blocks = 0, []
    while pos < len(blob):
        start = pos
        cards = []
        while True:
            card = blob[pos:pos + 80]
            if len(card) < 80:
                raise FramingError("truncated header at byte %d of %s" % (pos, path))
            pos += 80
            if card[:3] == b"END" and card[3:].strip() == b"":
                break
            cards.append(parse_card(card))
            if len(cards) > 4096:
                raise FramingError("no END card")
        hdr = {}
        for k, v, _ in cards:
            hdr[k] = v
        ncards = len(cards) + 1
        directio = hdr.get("DIRECTIO", 0)
        try:
            directio = int(directio)
        except (TypeError, ValueError):
            directio = 0
        pad = 0
        if directio != 0:
            pad = (512 - (80 * ncards) % 512) % 512
            if blob[pos:pos + pad].strip(b"\0") != b"":
                raise FramingError("non-zero padding after header at byte %d" % pos)
            if strict_padding and blob[pos + pad:pos + pad + 512].strip(b"\0") == b"" and len(blob) >= pos + pad + 512 \
                    and pad == 0 and "BLOCSIZE" in hdr:
                # an aligned header followed by 512 zero bytes *might* be data; decided by the total length below
                pass
        pos += pad
        if "BLOCSIZE" not in hdr:
            raise FramingError("no BLOCSIZE card")
        n = int(hdr["BLOCSIZE"])
        data = blob[pos:pos + n]
        if len(data) != n:
            raise FramingError("block data truncated: %d of %d bytes (block %d of %s)" % (len(data), n, len(blocks), path))
        pos += n
        blocks.append({"cards": cards, "hdr": hdr, "ncards": ncards, "pad": pad, "data": data, "offset": start})
    return blocks


def format_card(key, value):
    if isinstance(value, str):
        v = "'%-8s'" % value
        line = "%-8s= %-20s" % (key, v)
    else:
        line = "%-8s= %20s" % (key, value)
    return ("%-80s" % line).encode("ascii")


def write_file(path, blocks):
    """blocks: list of (ordered header dict, data bytes).  Padding follows the DIRECTIO rule."""
    with open(path, "wb") as f:
        for hdr, data in blocks:
            n = 0
            for k, v in hdr.items():
                f.write(format_card(k, v))
                n += 1
            f.write(("%-80s" % "END").encode("ascii"))
            n += 1
            directio = hdr.get("DIRECTIO", 0)
            if isinstance(directio, str):
                directio = int(directio)
            if directio != 0:
                f.write(b"\0" * ((512 - (80 * n) % 512) % 512))
            f.write(data)


def decode_block(data, obsnchan, npol, nbits):
    """Standard layout: channel-major, then time, then polarisation, then re/im; 4-bit: real high nibble,
    imaginary low nibble.  Returns complex array [obsnchan, ntime, npol]."""
    raw = np.frombuffer(data, dtype=np.int8).reshape(obsnchan, -1)
    if nbits == 8:
        nt = raw.shape[1] // (2 * npol)
        x = raw.reshape(obsnchan, nt, npol, 2).astype(float)
        return x[..., 0] + 1j * x[..., 1]
    if nbits == 4:
        nt = raw.shape[1] // npol
        u = raw.view(np.uint8).reshape(obsnchan, nt, npol).astype(int)
        re = u >> 4
        im = u & 15
        re = np.where(re >= 8, re - 16, re)
        im = np.where(im >= 8, im - 16, im)
        return re + 1j * im
    raise ValueError("nbits %r" % nbits)


def encode_block(v, nbits):
    """Inverse of decode_block for integer-valued complex v[obsnchan, ntime, npol]."""
    re = np.real(v).astype(int)
    im = np.imag(v).astype(int)
    if nbits == 8:
        out = np.stack([re, im], axis=-1).astype(np.int8)
        return out.reshape(v.shape[0], -1).tobytes()
    u = ((re & 15) << 4) | (im & 15)
    return u.astype(np.uint8).reshape(v.shape[0], -1).tobytes()
