"""Recorder for setigen.Cadence / OrderedCadence executions (trace validation by spec/CadenceTrace.tla).

Class-level wrappers around the public list / label / time / injection methods; one event per OUTERMOST call, logged at
its return (also when it raises), with the cadence before and after, the labels and start times of every object seen so
far, the aggregates and the result.  No source hooks: the wrappers are installed from outside (also under the
repository's own tests through harness/verif_recorder.py) and removed again.

Times are floats in the library; the trace carries integer ticks relative to the earliest start time of the trace
(tick 10 us, coarser if the trace spans more than 2^30 ticks), the spec compares them with a tolerance of 2 ticks."""
import contextlib

import numpy as np

from setigen import cadence as _cad
from setigen import frame as _frame

NONE = 99                       # Python None as a slice bound (PyList.tla NoneV)


class Recorder(object):
    def __init__(self):
        self.events = []
        self.objs = []          # strong references keep id() stable
        self.oid = {}
        self.first = {}         # object id -> (label, t_start) at first sight
        self.keys = {}
        self.cads = []
        self.cid = {}
        self.depth = 0
        self.injecting = None

    # ---- identities
    def obj(self, o):
        k = id(o)
        if k not in self.oid:
            self.objs.append(o)
            self.oid[k] = len(self.objs)
            self.first[len(self.objs)] = (self.label_of(o), self.t_of(o))
        return self.oid[k]

    def cad(self, c):
        k = id(c)
        if k not in self.cid:
            self.cads.append(c)
            self.cid[k] = len(self.cads)
        return self.cid[k]

    @staticmethod
    def label_of(o):
        if isinstance(o, _frame.Frame):
            return str(o.metadata.get("order_label", "-"))
        return "-"

    @staticmethod
    def t_of(o):
        return float(o.t_start) if isinstance(o, _frame.Frame) else 0.0

    def key_of(self, o):
        if not isinstance(o, _frame.Frame):
            return 0
        k = (float(o.df), float(o.dt), int(o.fchans), float(o.fmin))
        if k not in self.keys:
            self.keys[k] = len(self.keys) + 1
        return self.keys[k]

    # ---- snapshots
    def members(self, c):
        frames = getattr(c, "frames", None)
        if frames is None:
            return []
        return [self.obj(f) for f in frames]

    def snap_cad(self, c):
        ordered = isinstance(c, _cad.OrderedCadence)
        return {"ids": self.members(c), "ordered": ordered, "order": list(str(getattr(c, "order", ""))) if ordered else []}

    def vectors(self):
        return [self.label_of(o) for o in self.objs], [self.t_of(o) for o in self.objs]

    def agg(self, c):
        frames = getattr(c, "frames", [])
        if len(frames) == 0 or not all(isinstance(f, _frame.Frame) for f in frames):
            return {"empty": len(frames) == 0, "tchans": 0, "obs": 0.0, "slews": []}
        return {"empty": False, "tchans": int(c.tchans), "obs": float(c.obs_range), "slews": [float(x) for x in c.slew_times]}

    # ---- one outermost call
    def call(self, name, c, args, fn, result=None, pre_objs=()):
        """Run fn() as event `name` on cadence c.  result(ret) -> dict describing the returned value."""
        if self.depth > 0:
            return fn()
        for o in pre_objs:
            self.obj(o)
        cid = self.cad(c)
        b = self.snap_cad(c)
        if name == "New":
            b = {"ids": [], "ordered": isinstance(c, _cad.OrderedCadence), "order": args.pop("_order")}
        lab_b, t_b = self.vectors()
        ev = {"e": name, "cad": cid, "a": args, "b": b, "lab_b": lab_b, "t_b": t_b}
        self.depth += 1
        ret, exc = None, None
        try:
            ret = fn()
        except Exception as e:            # BaseException (KeyboardInterrupt...) passes through unlogged
            exc = e
        finally:
            self.depth -= 1
        ev["st"] = "ok" if exc is None else type(exc).__name__
        ev["r"] = {"kind": "none"}
        if exc is None and result is not None:
            ev["r"] = result(ret)
        ev["after"] = self.snap_cad(c)
        ev["lab_a"], ev["t_a"] = self.vectors()
        ev["agg"] = self.agg(c)
        self.events.append(ev)
        if exc is not None:
            raise exc
        return ret

    # ---- trace
    def trace(self):
        """The finished trace for CadenceTrace.tla (vectors padded to all objects, times in ticks)."""
        n = len(self.objs)
        label0 = [self.first[i + 1][0] for i in range(n)]
        t00 = [self.first[i + 1][1] for i in range(n)]
        is_frame = [isinstance(o, _frame.Frame) for o in self.objs]
        times = [t for t, f in zip(t00, is_frame) if f]
        for ev in self.events:
            for k in ("t_b", "t_a"):
                times += [t for t, f in zip(ev.get(k, []), is_frame) if f]
        base = min(times) if times else 0.0
        span = max([abs(t - base) for t in times] + [1.0])
        for o, f in zip(self.objs, is_frame):
            if f:
                span = max(span, float(o.tchans * o.dt))
        tick = 1e-5
        while span / tick > 2 ** 29:
            tick *= 10.0

        def tk(t):
            return int(round((t - base) / tick))

        def dur(o):
            return int(round(o.tchans * o.dt / tick)) if isinstance(o, _frame.Frame) else 0

        def pad(vec, fill):
            return list(vec) + list(fill[len(vec):])

        evs = []
        for ev in self.events:
            e = dict(ev)
            for k in ("lab_b", "lab_a"):
                if k in e:
                    e[k] = pad(e[k], label0)
            for k in ("t_b", "t_a"):
                if k in e:
                    e[k] = [tk(t) if f else 0 for t, f in zip(pad(e[k], t00), is_frame)]
            if "agg" in e:
                a = e["agg"]
                e["agg"] = {"empty": a["empty"], "tchans": a["tchans"], "obs": int(round(a["obs"] / tick)),
                            "slews": [int(round(x / tick)) for x in a["slews"]]}
            if "dts" in e:
                e["dts"] = [int(round(x / tick)) for x in e["dts"]]
            if e["e"] in ("OverwriteTimes", "New") and "slew" in e["a"]:
                e["a"] = dict(e["a"], slew=int(round(e["a"]["slew"] / tick)))
            evs.append(e)
        h = {"nf": n, "nc": max(1, len(self.cads)), "key": [self.key_of(o) for o in self.objs],
             "tch": [int(o.tchans) if f else 0 for o, f in zip(self.objs, is_frame)],
             "dur": [dur(o) for o in self.objs], "label0": label0, "tick": repr(tick)}
        return {"h": h, "ev": evs}


def _idx(i):
    """An index argument as the spec sees it, or None when it is not an integer."""
    if isinstance(i, (bool, np.bool_)):
        return None
    if isinstance(i, (int, np.integer)):
        return int(i)
    return None


def _bound(x):
    return NONE if x is None else int(x)


@contextlib.contextmanager
def recording(rec):
    """Install the wrappers on the Cadence classes; remove them afterwards."""
    C, O = _cad.Cadence, _cad.OrderedCadence
    saved = []

    def patch(cls, name, make):
        had = name in cls.__dict__
        orig = cls.__dict__.get(name)
        target = getattr(cls, name)
        saved.append((cls, name, had, orig))
        setattr(cls, name, make(target))

    def sel_result(ret):
        if isinstance(ret, _cad.Cadence):
            rc = rec.cad(ret)
            return {"kind": "ids", "ids": rec.members(ret), "rord": isinstance(ret, _cad.OrderedCadence), "rcad": rc}
        return {"kind": "val", "val": rec.obj(ret)}

    def mk_init(orig):
        def __init__(self, frame_list=None, *a, **kw):
            if rec.depth > 0:
                return orig(self, frame_list, *a, **kw)
            lst = list(frame_list) if frame_list is not None else []
            names = ["order", "t_slew", "t_overwrite"] if isinstance(self, O) else ["t_slew", "t_overwrite"]
            params = dict(zip(names, a))
            params.update(kw)
            order = list(str(params.get("order", "ABACAD"))) if isinstance(self, O) else []
            args = {"list": [rec.obj(x) for x in lst], "overwrite": bool(params.get("t_overwrite", False)),
                    "slew": float(params.get("t_slew", 0)), "_order": order}
            return rec.call("New", self, args, lambda: orig(self, lst if frame_list is not None else None, *a, **kw), pre_objs=lst)
        return __init__

    def mk_insert(orig):
        def insert(self, i, v):
            ii = _idx(i)
            if ii is None:
                return orig(self, i, v)
            return rec.call("Insert", self, {"i": ii, "v": rec.obj(v)}, lambda: orig(self, i, v), pre_objs=[v])
        return insert

    def mk_append(orig):
        def append(self, v):
            return rec.call("Append", self, {"v": rec.obj(v)}, lambda: orig(self, v), pre_objs=[v])
        return append

    def mk_extend(name):
        def make(orig):
            def extend(self, values):
                if rec.depth > 0:
                    return orig(self, values)
                lst = list(values)
                return rec.call(name, self, {"list": [rec.obj(x) for x in lst]}, lambda: orig(self, lst), pre_objs=lst)
            return extend
        return make

    def mk_setitem(orig):
        def __setitem__(self, i, v):
            if rec.depth > 0:
                return orig(self, i, v)
            ii = _idx(i)
            if ii is None:
                return rec.call("SetSlice", self, {"x": 0}, lambda: orig(self, i, v))
            return rec.call("SetItem", self, {"i": ii, "v": rec.obj(v)}, lambda: orig(self, i, v), pre_objs=[v])
        return __setitem__

    def mk_delitem(orig):
        def __delitem__(self, i):
            if rec.depth > 0:
                return orig(self, i)
            if isinstance(i, slice):
                if i.step == 0:
                    return orig(self, i)
                return rec.call("DelSlice", self, {"lo": _bound(i.start), "hi": _bound(i.stop), "step": 1 if i.step is None else int(i.step)},
                                lambda: orig(self, i))
            ii = _idx(i)
            if ii is None:
                return orig(self, i)
            return rec.call("DelItem", self, {"i": ii}, lambda: orig(self, i))
        return __delitem__

    def mk_pop(orig):
        def pop(self, *a):
            i = a[0] if a else None
            if i is not None and _idx(i) is None:
                return orig(self, *a)
            return rec.call("Pop", self, {"i": NONE if i is None else int(i)}, lambda: orig(self, *a), result=sel_result)
        return pop

    def mk_remove(orig):
        def remove(self, v):
            return rec.call("Remove", self, {"v": rec.obj(v)}, lambda: orig(self, v), pre_objs=[v])
        return remove

    def mk_simple(name):
        def make(orig):
            def f(self):
                return rec.call(name, self, {"x": 0}, lambda: orig(self))
            return f
        return make

    def mk_getitem(orig):
        def __getitem__(self, i):
            if rec.depth > 0:
                return orig(self, i)
            if isinstance(i, slice):
                if i.step == 0:
                    return orig(self, i)
                return rec.call("GetSlice", self, {"lo": _bound(i.start), "hi": _bound(i.stop), "step": 1 if i.step is None else int(i.step)},
                                lambda: orig(self, i), result=sel_result)
            if isinstance(i, (list, tuple, np.ndarray)):
                arr = np.asarray(i)
                if len(self.frames) == 0 or arr.ndim != 1 or arr.size == 0:
                    return orig(self, i)
                if arr.dtype == bool:
                    return rec.call("GetMask", self, {"mask": [bool(x) for x in arr], "form": type(i).__name__}, lambda: orig(self, i), result=sel_result)
                if np.issubdtype(arr.dtype, np.integer):
                    return rec.call("GetIdx", self, {"list": [int(x) for x in arr], "form": type(i).__name__}, lambda: orig(self, i), result=sel_result)
                return orig(self, i)
            ii = _idx(i)
            if ii is None:
                return orig(self, i)
            return rec.call("GetItem", self, {"i": ii}, lambda: orig(self, i), result=sel_result)
        return __getitem__

    def mk_bylabel(orig):
        def by_label(self, order_label="A"):
            return rec.call("ByLabel", self, {"label": str(order_label)}, lambda: orig(self, order_label), result=sel_result)
        return by_label

    def mk_setorder(orig):
        def set_order(self, order):
            return rec.call("SetOrder", self, {"order": list(str(order))}, lambda: orig(self, order))
        return set_order

    def mk_overwrite(orig):
        def overwrite_times(self):
            return rec.call("OverwriteTimes", self, {"slew": float(self.t_slew)}, lambda: orig(self))
        return overwrite_times

    def mk_consolidate(orig):
        def consolidate(self):
            return rec.call("Consolidate", self, {"x": 0}, lambda: orig(self),
                            result=lambda ret: {"kind": "none", "tch": 0 if ret is None else int(ret.tchans)})
        return consolidate

    def ts0(c):
        return [float(f.ts[0]) if isinstance(f, _frame.Frame) and len(f.ts) else 0.0 for f in c.frames]

    def mk_add_signal(orig):
        def add_signal(self, *a, **kw):
            if rec.depth > 0 or rec.injecting is not None:
                return orig(self, *a, **kw)
            cid = rec.cad(self)
            base = ts0(self)
            rec.members(self)
            _, t_b = rec.vectors()
            rec.events.append({"e": "InjBegin", "cad": cid, "b": rec.snap_cad(self), "t_b": t_b})
            rec.injecting = (self, base)
            exc = None
            try:
                ret = orig(self, *a, **kw)
            except BaseException as e:
                exc = e
            finally:
                rec.injecting = None
            now = ts0(self) if len(self.frames) == len(base) else []
            _, t_a = rec.vectors()
            rec.events.append({"e": "InjEnd", "cad": cid, "st": "ok" if exc is None else type(exc).__name__,
                               "dts": [x - y for x, y in zip(now, base)], "t_a": t_a, "after": rec.snap_cad(self)})
            if exc is not None:
                raise exc
            return ret
        return add_signal

    frame_add_signal = _frame.Frame.add_signal

    def frame_add_signal_wrap(self, *a, **kw):
        inj = rec.injecting
        if inj is None or rec.depth > 0:
            return frame_add_signal(self, *a, **kw)
        c, base = inj
        ev = {"e": "Inject", "cad": rec.cad(c), "fid": rec.obj(self),
              "dts": [x - y for x, y in zip(ts0(c), base)] if len(c.frames) == len(base) else []}
        rec.depth += 1                    # nested cadence / frame calls made by user callbacks are not events
        try:
            ret = frame_add_signal(self, *a, **kw)
            ev["st"] = "ok"
            return ret
        except BaseException as e:
            ev["st"] = type(e).__name__
            raise
        finally:
            rec.depth -= 1
            rec.events.append(ev)

    try:
        patch(C, "__init__", mk_init)
        patch(O, "__init__", mk_init)
        patch(C, "insert", mk_insert)
        patch(O, "insert", mk_insert)
        patch(C, "append", mk_append)
        patch(C, "extend", mk_extend("Extend"))
        patch(C, "__setitem__", mk_setitem)
        patch(O, "__setitem__", mk_setitem)
        patch(C, "__delitem__", mk_delitem)
        patch(C, "pop", mk_pop)
        patch(C, "remove", mk_remove)
        patch(C, "reverse", mk_simple("Reverse"))
        patch(C, "clear", mk_simple("Clear"))
        patch(C, "__getitem__", mk_getitem)
        patch(O, "by_label", mk_bylabel)
        patch(O, "set_order", mk_setorder)
        patch(C, "overwrite_times", mk_overwrite)
        patch(C, "consolidate", mk_consolidate)
        patch(C, "add_signal", mk_add_signal)
        _frame.Frame.add_signal = frame_add_signal_wrap
        yield rec
    finally:
        _frame.Frame.add_signal = frame_add_signal
        for cls, name, had, orig in reversed(saved):
            if had:
                setattr(cls, name, orig)
            else:
                delattr(cls, name)
