"""Batch trace validation: all traces of a run in one JSON file, validated by one TLC invocation of X Trace.tla.
Returns (accepted count, rejects [{reject: tid, at: l, why: [...]}], TLCResult)."""
import json
import os

from . import tlc


def validate(module, cfg, traces, outdir, deque=False, timeout=900):
    path = os.path.join(outdir, "%s.traces.json" % module)
    with open(path, "w") as f:
        json.dump(traces, f)
    res = tlc.run(module, cfg, outdir, workers=1, env={"TRACE_FILE": path}, deque=deque, timeout=timeout)
    rejects = [e for e in res.emitted if isinstance(e, dict) and "reject" in e]
    if res.violations:
        raise tlc.TLCError("trace spec %s reported %s" % (module, res.violations))
    os.remove(path)
    return len(traces) - len(rejects), rejects, res
