"""C06: injection is additive, confined to its bounding range, preserves frame state (Injection.tla)."""
from . import c01


def wide_stateful_leg(ctx):
    """Shipped callables that carry their own random state (jumping RFI path, jittered pulse profile) on frames wider than
    4096 / 2^16 columns with sub-sample integration: a bounded injection must equal the unbounded one restricted to the
    range when both are given identically seeded callables, and the unbounded one must be reproducible."""
    import numpy as np
    import setigen as stg

    def comps(fr, seed):
        path = stg.simple_rfi_path(f_start=fr.get_frequency(6000), drift_rate=0.2 * fr.unit_drift_rate, spread=400 * fr.df,
                                   spread_type="uniform", rfi_type="random_walk", seed=seed)
        tp = stg.periodic_gaussian_t_profile(pulse_width=1.5, period=3.0, phase=0.4, pulse_offset_width=0.6, pulse_direction="rand",
                                             amplitude=2.0, level=3.0, min_level=0.5, seed=seed + 1)
        return path, tp, stg.gaussian_f_profile(width=40 * fr.df), stg.constant_bp_profile(level=1.0)

    for F, fsub in ((9000, 2), (70000, 1)) if not ctx.quick() else ((9000, 2),):
        for asc in (True, False):
            mk = lambda: stg.Frame(fchans=F, tchans=6, df=2.0, dt=1.0, fch1=1.0e9 if asc else 1.0e9 + 2.0 * (F - 1), ascending=asc, t_start=0.0, seed=3)
            fr = mk()
            unb = fr.add_signal(*comps(fr, 11), integrate_f_profile=fsub > 1, f_subsamples=fsub)
            fr2 = mk()
            again = fr2.add_signal(*comps(fr2, 11), integrate_f_profile=fsub > 1, f_subsamples=fsub)
            ctx.evaluations += 1
            ctx.mark(("wide-stateful", F, fsub, asc))
            args = {"F": F, "fsub": fsub, "asc": asc, "action": "AddSignalWideStateful"}
            if not np.array_equal(unb, again):
                ctx.violation("Injection", "shipped:wide_stateful.reproducible", args, {"max_abs_diff": float(np.max(np.abs(unb - again)))})
            scale = float(np.max(np.abs(unb))) or 1.0
            for lo, hi in ((5600, 6100), (6300, 6900), (4000, 8500)):
                fr3 = mk()
                bnd = fr3.add_signal(*comps(fr3, 11), bounding_f_range=(fr3.get_frequency(lo), fr3.get_frequency(hi)),
                                     integrate_f_profile=fsub > 1, f_subsamples=fsub)
                ctx.evaluations += 1
                if np.max(np.abs(bnd[:, lo:hi] - unb[:, lo:hi])) > 1e-9 * scale or np.any(bnd[:, :lo] != 0) or np.any(bnd[:, hi:] != 0):
                    a2 = dict(args)
                    a2["range"] = "[%d, %d)" % (lo, hi)
                    ctx.violation("Injection", "shipped:wide_stateful.bounded_is_restriction", a2,
                                  {"max_abs_diff": float(np.max(np.abs(bnd[:, lo:hi] - unb[:, lo:hi]))), "scale": scale})


def shipped_state_leg(ctx, n):
    """Every shipped path / profile family with random parameters (phases, offsets, seeds): the injection leaves the frame's
    axes / estimates / metadata / generator as they were, the returned array is the delta, and the same description
    injected again into the same frame returns the same signal (nothing of the first call lingers in frame or callables'
    inputs)."""
    import numpy as np
    from ..adapters import injection as ad
    rng = np.random.default_rng(ctx.seed + 303)
    for case in ad.shipped_cases(rng, n):
        fr, mk = ad.build_shipped(case)
        kw = dict(integrate_path=case["iP"], integrate_t_profile=case["iT"], integrate_f_profile=case["iF"],
                  doppler_smearing=case["smear"] != 0, t_subsamples=case["tsub"], f_subsamples=case["fsub"],
                  smearing_subsamples=max(case["smear"], 1))
        args = {k: (v if not isinstance(v, float) else round(v, 6)) for k, v in case.items()}
        args.update({"action": "AddSignalShippedState"})
        ctx.evaluations += 1
        ctx.mark(("shipped-state", case["gname"], case["pk"], case["tk"], case["fk"], case["iP"], case["iT"], case["iF"], case["smear"], case["seed"]))
        s0 = ad.frame_state(fr)
        before = fr.data.copy()
        try:
            r1 = fr.add_signal(*mk(), **kw)
        except Exception:
            continue                                  # value / exception clauses of shipped families are C01's
        chg = ad.same_state(s0, ad.frame_state(fr))
        if chg is not None:
            ctx.violation("Injection", "shipped:state_changed", dict(args, field=str(chg)), {"case": case, "changed": str(chg)})
            continue
        if not np.array_equal(fr.data, before + r1):
            ctx.violation("Injection", "shipped:data_delta", args, {"case": case})
            continue
        keep = r1.copy()
        r2 = fr.add_signal(*mk(), **kw)
        if not np.array_equal(r1, keep):
            ctx.violation("Injection", "shipped:earlier_returned_changed", args, {"case": case})
        elif r2.shape != r1.shape or not np.array_equal(r2, r1):
            ctx.violation("Injection", "shipped:repeat_differs", args, {"case": case, "max_abs_diff": float(np.max(np.abs(r2 - r1)))})


def run(ctx):
    ctx.notes["rule"] = ("behaviours of 1-3 injections from Injection.tla over frames with prior content (pixel identities in "
                         "float32, every 10th loaded from a .fil), all bounding-range classes, both orders; distinct = "
                         "distinct (geometry, configuration sequence)")
    c01.run_for(ctx, "C06")
    wide_stateful_leg(ctx)
    shipped_state_leg(ctx, ctx.pick(200, 4000))
    from .frame_t import frame_trace_leg
    frame_trace_leg(ctx, "C06")
