"""C06: injection is additive, confined to its bounding range, preserves frame state (Injection.tla)."""
from . import c01


def run(ctx):
    ctx.notes["rule"] = ("behaviours of 1-3 injections from Injection.tla over frames with prior content (pixel identities in "
                         "float32, every 10th loaded from a .fil), all bounding-range classes, both orders; distinct = "
                         "distinct (geometry, configuration sequence)")
    c01.run_for(ctx, "C06")
    from .frame_t import frame_trace_leg
    frame_trace_leg(ctx, "C06")
