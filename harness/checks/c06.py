"""C06: injection is additive, confined to its bounding range, preserves frame state (Injection.tla)."""
from . import c01


def wide_stateful_leg(ctx):
    """Shipped callables that carry their own random state (jumping RFI path, jittered pulse profile) on frames wider than
    4096 / 2^16 columns with sub-sample integration: a bounded injection must equal the unbounded one restricted to the
    range when both are given identically seeded callables, and the unbounded one must be reproducible."""
    import numpy as np
    import setigen as stg

    def comps(fr, seed):
        path = stg.simple_rfi_path(f_start=fr.get_frequency(6000), drift_rate=0.2 * fr.unit_drift_rate, spread=400 * fr.df,
                                   spread_type="uniform", rfi_type="random_walk", seed=seed)
        tp = stg.periodic_gaussian_t_profile(pulse_width=1.5, period=3.0, phase=0.4, pulse_offset_width=0.6, pulse_direction="rand",
                                             amplitude=2.0, level=3.0, min_level=0.5, seed=seed + 1)
        return path, tp, stg.gaussian_f_profile(width=40 * fr.df), stg.constant_bp_profile(level=1.0)

    for F, fsub in ((9000, 2), (70000, 1)) if not ctx.quick() else ((9000, 2),):
        for asc in (True, False):
            mk = lambda: stg.Frame(fchans=F, tchans=6, df=2.0, dt=1.0, fch1=1.0e9 if asc else 1.0e9 + 2.0 * (F - 1), ascending=asc, t_start=0.0, seed=3)
            fr = mk()
            unb = fr.add_signal(*comps(fr, 11), integrate_f_profile=fsub > 1, f_subsamples=fsub)
            fr2 = mk()
            again = fr2.add_signal(*comps(fr2, 11), integrate_f_profile=fsub > 1, f_subsamples=fsub)
            ctx.evaluations += 1
            ctx.mark(("wide-stateful", F, fsub, asc))
            args = {"F": F, "fsub": fsub, "asc": asc, "action": "AddSignalWideStateful"}
            if not np.array_equal(unb, again):
                ctx.violation("Injection", "shipped:wide_stateful.reproducible", args, {"max_abs_diff": float(np.max(np.abs(unb - again)))})
            scale = float(np.max(np.abs(unb))) or 1.0
            for lo, hi in ((5600, 6100), (6300, 6900), (4000, 8500)):
                fr3 = mk()
                bnd = fr3.add_signal(*comps(fr3, 11), bounding_f_range=(fr3.get_frequency(lo), fr3.get_frequency(hi)),
                                     integrate_f_profile=fsub > 1, f_subsamples=fsub)
                ctx.evaluations += 1
                if np.max(np.abs(bnd[:, lo:hi] - unb[:, lo:hi])) > 1e-9 * scale or np.any(bnd[:, :lo] != 0) or np.any(bnd[:, hi:] != 0):
                    a2 = dict(args)
                    a2["range"] = "[%d, %d)" % (lo, hi)
                    ctx.violation("Injection", "shipped:wide_stateful.bounded_is_restriction", a2,
                                  {"max_abs_diff": float(np.max(np.abs(bnd[:, lo:hi] - unb[:, lo:hi]))), "scale": scale})


def run(ctx):
    ctx.notes["rule"] = ("behaviours of 1-3 injections from Injection.tla over frames with prior content (pixel identities in "
                         "float32, every 10th loaded from a .fil), all bounding-range classes, both orders; distinct = "
                         "distinct (geometry, configuration sequence)")
    c01.run_for(ctx, "C06")
    wide_stateful_leg(ctx)
    from .frame_t import frame_trace_leg
    frame_trace_leg(ctx, "C06")
