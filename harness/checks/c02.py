"""C02: recorded RAW samples equal the reference pipeline, whatever the partitioning (Backend.tla).
Also hosts the shared runner used by C04 / C12 / C20 (same behaviours, different divergence classes)."""
import os

from .. import tlc
from ..adapters import backend as ad

MODULE = "Backend"
ACTIONS = ["RecordBegin", "OpenFile", "WriteHeader", "PlanBlock", "Request", "Store", "WriteBlock", "CloseFile", "RecordEnd"]

QUICK_SETS = {"USet": "{1, 2, 3, 4}", "SSet": "{1, 2, 3, 5}", "BlocksSet": "{1, 3}", "BpfSet": "{1, 2}"}
THOROUGH_SETS = {"USet": "{1, 2, 3, 4, 5, 6, 7}", "SSet": "{1, 2, 3, 4, 5, 6, 7, 9}", "BlocksSet": "{1, 2, 3}", "BpfSet": "{1, 2, 3}"}


def model_check(ctx):
    cfg = tlc.cfg_with("Backend_MC.cfg", ctx.pick(QUICK_SETS, THOROUGH_SETS), ctx.outdir)
    res = tlc.run(MODULE, cfg, ctx.outdir, workers=8, coverage=True, timeout=1800)
    ctx.add_tlc(res, "Backend_MC", "M")
    ctx.tlc_violation(res, MODULE, "Backend_MC")
    dead = [a for a in ACTIONS if res.coverage.get(a, (0, 0))[1] == 0]
    if dead:
        raise RuntimeError("vacuity: actions never taken in Backend_MC: %s" % dead)


def generate(ctx, num):
    """Configurations with their expected recording summaries, from TLC (random initial states = random configs)."""
    sets = dict(THOROUGH_SETS)
    cfg = tlc.cfg_with("Backend_Gen.cfg", sets, ctx.outdir)
    res = tlc.run(MODULE, cfg, ctx.outdir, workers=4, simulate=max(1, num // 4), depth=400, seed=ctx.seed, timeout=1800)
    ctx.add_tlc(res, "Backend_Gen simulate num=%d" % num, "R-generate")
    if not res.emitted:
        raise RuntimeError("Backend_Gen produced no configurations")
    return res.emitted


def run_for(ctx, pid, num_quick=160, num_thorough=4000, check_bytes=True):
    ctx.notes["rule"] = ("configurations = (taps, windows per block U, num_subblocks S incl. non-dividing and > U, blocks, "
                         "blocks per file, pols, bits, header-dict mode) drawn by TLC from Backend.tla with the expected "
                         "request sequence / files / PKTIDX / accounting; each is instantiated (branches, channels, "
                         "start channel, orientation, digitiser on/off, sample rate, antenna or 2-antenna array, template) "
                         "and recorded twice in one process; distinct = distinct (configuration, instantiation)")
    ctx.assume("quantiser statistics from a common prefix: stats_calc_period=-1, digitiser 2*taps*B samples, requantiser "
               "taps rows; a byte may differ by 1 LSB only where the reference's pre-rounding value is within 1e-7 of a tie")
    ctx.assume("reference pipeline: harness-owned quantiser + FIR/explicit-DFT + GUPPI encoder; twin antenna with the "
               "same seed read in one request per recording")
    model_check(ctx)
    behs = generate(ctx, ctx.pick(num_quick, num_thorough))
    work = os.path.join(ctx.outdir, "raw")
    os.makedirs(work, exist_ok=True)
    seen = set()
    for n, beh in enumerate(behs):
        key = tuple(sorted(beh["cfg"].items()))
        if key in seen:
            continue
        seen.add(key)
        divs, inst = ad.run_config(beh, ctx.seed, work, check_bytes=check_bytes)
        ctx.traces += len(beh["recs"])
        ctx.steps += sum(len(r["reqs"]) for r in beh["recs"])
        ctx.mark(key + tuple(sorted((k, str(v)) for k, v in inst.items())))
        if len(ctx.samples) < 2:
            ctx.sample({"leg": "R", "cfg": beh["cfg"], "instantiation": inst,
                        "expected_requests_rec1": beh["recs"][0]["reqs"], "expected_files_rec1": beh["recs"][0]["files"]})
        for d in divs:
            if pid not in d.cls.split("|"):
                continue
            args = dict(beh["cfg"])
            args.update({k: (v if not isinstance(v, list) else str(v)) for k, v in inst.items()})
            args.update({"action": "Record", "field": d.field, "recording": d.rec})
            ctx.violation(MODULE, "replay:" + d.field, args,
                          {"cfg": beh["cfg"], "instantiation": inst, "expected": d.expected, "observed": d.observed,
                           "recording": d.rec})


def run(ctx):
    run_for(ctx, "C02")
