"""C02: recorded RAW samples equal the reference pipeline, whatever the partitioning (Backend.tla).
Also hosts the shared runner used by C04 / C12 / C20 (same behaviours, different divergence classes)."""
import os

from .. import tlc
from ..adapters import backend as ad

MODULE = "Backend"
ACTIONS = ["RecordBegin", "OpenFile", "WriteHeader", "PlanBlock", "Request", "Abort", "Store", "WriteBlock", "CloseFile", "RecordEnd"]

QUICK_SETS = {"USet": "{1, 2, 3, 4}", "SSet": "{1, 2, 3, 5}", "BlocksSet": "{1, 2}", "BpfSet": "{1, 2}"}
THOROUGH_SETS = {"USet": "{1, 2, 3, 4, 5, 6, 7}", "SSet": "{1, 2, 3, 4, 5, 6, 7, 9}", "BlocksSet": "{1, 2, 3}", "BpfSet": "{1, 2, 3}"}


def model_check(ctx):
    cfg = tlc.cfg_with("Backend_MC.cfg", ctx.pick(QUICK_SETS, THOROUGH_SETS), ctx.outdir)
    res = tlc.run(MODULE, cfg, ctx.outdir, workers=8, coverage=True, timeout=1800)
    ctx.add_tlc(res, "Backend_MC", "M")
    ctx.tlc_violation(res, MODULE, "Backend_MC")
    dead = [a for a in ACTIONS if res.coverage.get(a, (0, 0))[1] == 0]
    if dead:
        raise RuntimeError("vacuity: actions never taken in Backend_MC: %s" % dead)


def generate(ctx, num, nrec=2):
    """Configurations with their expected recording summaries, from TLC (random initial states = random configs)."""
    sets = dict(THOROUGH_SETS)
    if nrec != 2:
        sets["NRec"] = str(nrec)
    cfg = tlc.cfg_with("Backend_Gen.cfg", sets, ctx.outdir)
    res = tlc.run(MODULE, cfg, ctx.outdir, workers=4, simulate=max(1, num // 4), depth=400, seed=ctx.seed, timeout=1800)
    ctx.add_tlc(res, "Backend_Gen simulate num=%d NRec=%d" % (num, nrec), "R-generate")
    if not res.emitted:
        raise RuntimeError("Backend_Gen produced no configurations")
    return res.emitted


def run_for(ctx, pid, num_quick=160, num_thorough=4000, check_bytes=True):
    ctx.notes["rule"] = ("configurations = (taps, windows per block U, num_subblocks S incl. non-dividing and > U, blocks, "
                         "blocks per file, pols, bits, header-dict mode) drawn by TLC from Backend.tla with the expected "
                         "request sequence / files / PKTIDX / accounting; each is instantiated (branches, channels, "
                         "start channel, orientation, digitiser on/off, sample rate, antenna or 2-antenna array, template) "
                         "and recorded twice in one process, in most behaviours after an attempt in which the voltage source "
                         "raises on its 2nd or 3rd request; distinct = distinct (configuration, instantiation)")
    ctx.assume("quantiser statistics from a common prefix: stats_calc_period=-1, digitiser 2*taps*B samples, requantiser "
               "taps rows; a byte may differ by 1 LSB only where the reference's pre-rounding value is within 1e-7 of a tie")
    ctx.assume("reference pipeline: harness-owned quantiser + FIR/explicit-DFT + GUPPI encoder; twin antenna with the "
               "same seed read in one request per recording")
    model_check(ctx)
    behs = generate(ctx, ctx.pick(num_quick, num_thorough))
    # a third recording in the same process (whatever the first two left behind -- header dictionaries, template,
    # caches, clocks -- the third is a recording like the first)
    behs += generate(ctx, ctx.pick(max(16, num_quick // 5), num_thorough // 5), nrec=3)
    work = os.path.join(ctx.outdir, "raw")
    os.makedirs(work, exist_ok=True)
    seen = set()
    for n, beh in enumerate(behs):
        ab = beh["recs"][-1].get("abort") or {"n": 0}
        key = tuple(sorted(beh["cfg"].items())) + ((("abort", ab["before"], ab["at"]),) if ab["n"] else ()) + (("nrec", len(beh["recs"])),)
        if key in seen:
            continue
        seen.add(key)
        if ab["n"]:
            ctx.notes["behaviours_with_a_failing_source"] = ctx.notes.get("behaviours_with_a_failing_source", 0) + 1
        divs, inst = ad.run_config(beh, ctx.seed, work, check_bytes=check_bytes)
        ctx.traces += len(beh["recs"])
        ctx.steps += sum(len(r["reqs"]) for r in beh["recs"])
        ctx.mark(key + tuple(sorted((k, str(v)) for k, v in inst.items())))
        if len(ctx.samples) < 2:
            ctx.sample({"leg": "R", "cfg": beh["cfg"], "instantiation": inst,
                        "expected_requests_rec1": beh["recs"][0]["reqs"], "expected_files_rec1": beh["recs"][0]["files"]})
        for d in divs:
            if pid not in d.cls.split("|"):
                continue
            args = dict(beh["cfg"])
            args.update({k: (v if not isinstance(v, list) else str(v)) for k, v in inst.items()})
            args.update({"action": "Record", "field": d.field, "recording": d.rec})
            ctx.violation(MODULE, "replay:" + d.field, args,
                          {"cfg": beh["cfg"], "instantiation": inst, "expected": d.expected, "observed": d.observed,
                           "recording": d.rec})


def trace_leg(ctx, pid, with_repo_tests=True, spec="BackendTrace"):
    """Leg T: real record() executions at realistic sizes (1024 branches, 8 taps), and the repository's own voltage
    tests, recorded by harness/record.py and validated against BackendTrace.tla."""
    import subprocess
    import sys
    import numpy as np
    from .. import trace
    from ..record import Recorder
    from setigen.voltage import antenna as v_antenna, backend as v_backend, polyphase_filterbank as v_pfb, quantization as v_q
    rng = np.random.default_rng(ctx.seed + 202)
    work = os.path.join(ctx.outdir, "rawT")
    os.makedirs(work, exist_ok=True)
    rec = Recorder().install()
    cases = []
    try:
        for k in range(ctx.pick(10, 60)):
            B, taps = (1024, 8) if k % 2 == 0 else (int(rng.choice([16, 64, 256])), int(rng.choice([2, 4, 8])))
            U = int(rng.integers(1, 9))
            S = int(rng.integers(1, 12))
            pols, bits = int(rng.choice([1, 2])), int(rng.choice([4, 8]))
            nant = int(rng.choice([1, 1, 2]))
            nch = int(rng.integers(1, min(B // 2, 8) + 1))
            blocks, bpf = int(rng.integers(1, 4)), int(rng.integers(1, 3))
            kw = dict(sample_rate=3e9, fch1=6e9, ascending=bool(k % 2), num_pols=pols, seed=int(rng.integers(1 << 30)))
            if nant == 1:
                src = v_antenna.Antenna(**kw)
                streams = src.streams
            else:
                src = v_antenna.MultiAntennaArray(num_antennas=nant, delays=[0, 3][:nant], **kw)
                streams = [s for a in src.antennas for s in a.streams]
            for s_ in streams:
                s_.add_noise(0, 1)
            T = taps * U
            bps = 2 * pols * bits // 8
            pd, pr = int(rng.choice([1, 1, -1, 0, 2, 3, 5])), int(rng.choice([1, 1, -1, 2, 4]))
            be = v_backend.RawVoltageBackend(src, digitizer=v_q.RealQuantizer(target_fwhm=32, num_bits=8, stats_calc_period=pd),
                                             filterbank=v_pfb.PolyphaseFilterbank(num_taps=taps, num_branches=B),
                                             requantizer=v_q.ComplexQuantizer(target_fwhm=32 if bits == 8 else 5, num_bits=bits, stats_calc_period=pr),
                                             start_chan=0, num_chans=nch, block_size=nant * nch * T * bps, blocks_per_file=bpf, num_subblocks=S)
            be.record(os.path.join(work, "t%d" % k), num_blocks=blocks, length_mode="num_blocks", header_dict={}, load_template=False, verbose=False)
            if k % 3 == 0:      # a second recording on the same backend (num_subblocks already updated, antenna clock moved on)
                be.record(os.path.join(work, "u%d" % k), num_blocks=1, length_mode="num_blocks", header_dict={}, load_template=False, verbose=False)
            cases.append({"B": B, "taps": taps, "U": U, "S": S, "pols": pols, "bits": bits, "nant": nant, "blocks": blocks, "bpf": bpf})
            for fn in os.listdir(work):
                os.remove(os.path.join(work, fn))
    finally:
        rec.uninstall()
    traces = list(rec.traces)
    origin = ["driver"] * len(traces)
    if with_repo_tests:
        out = os.path.join(ctx.outdir, "repo_traces.json")
        env = dict(os.environ)
        repo = os.environ.get("VERIF_REPO", "/repo")
        env.update({"PYTHONPATH": os.path.join(core_dir(), "harness") + os.pathsep + repo, "VERIF_TRACE_OUT": out, "TQDM_DISABLE": "1"})
        p = subprocess.run([sys.executable, "-m", "pytest", "-q", "-p", "no:cacheprovider", "-p", "verif_recorder", "-x",
                            "tests/test_voltage/test_raw_voltages.py"], cwd=repo, env=env, stdout=subprocess.PIPE,
                           stderr=subprocess.STDOUT, universal_newlines=True, timeout=900)
        if os.path.exists(out):
            import json
            rt = json.load(open(out))
            traces += rt
            origin += ["repo-test"] * len(rt)
            ctx.notes["repo_test_traces"] = len(rt)
        if p.returncode != 0 or not os.path.exists(out):
            raise RuntimeError("recording the repository's voltage tests failed:\n" + p.stdout[-1500:])
    if not traces:
        raise RuntimeError("no record() traces were captured")
    ok, rejects, res = trace.validate(spec, spec + ".cfg", traces, ctx.outdir)
    ctx.add_tlc(res, "%s (%d record() executions)" % (spec, len(traces)), "T-validate")
    ctx.traces += len(traces)
    ctx.steps += sum(len(t) for t in traces)
    ctx.sample({"leg": "T", "origin": origin[0], "trace_head": traces[0][:5]})
    for t in traces:
        c = t[0]
        ctx.mark(("trace", c["taps"], c["B"], c["T"], c["S"], c["bpf"], c["pols"], c["nant"], c["blocks"], len(t)))
    for rj in rejects:
        t = traces[rj["reject"] - 1]
        ev = t[rj["at"] - 1] if rj["at"] - 1 < len(t) else {"e": "missing"}
        args = dict(t[0])
        args.update({"action": "RecordTrace", "origin": origin[rj["reject"] - 1], "event": ev.get("e")})
        ctx.violation(MODULE if spec == "BackendTrace" else "Quantizer", "trace-reject:" + str(ev.get("e")), args, {"begin": t[0], "position": rj["at"], "rejected_event": ev,
                                                                        "previous_events": t[max(0, rj["at"] - 5):rj["at"] - 1]})


def large_block_leg(ctx):
    """One recording far beyond the model's bounds (66000 spectra per block, more than 2^16 output rows in a single
    channelize call) against the same reference pipeline, for num_subblocks 1 and 3: an instantiation at scale of the
    LayoutIsGuppi / PartitionIndependence statements, outside what TLC enumerates."""
    import numpy as np
    from .. import guppi
    work = os.path.join(ctx.outdir, "rawL")
    os.makedirs(work, exist_ok=True)
    cfg = {"taps": 2, "U": 33000, "S": 1, "blocks": 1, "bpf": 1, "pols": 1, "bits": 8, "dict": "fresh"}
    inst = {"B": 8, "nch": 1, "start_chan": 1, "ascending": True, "digitize": True, "rate": 1024.0, "nant": 1, "seed": 4242 + ctx.seed,
            "template": False, "delays": [0]}
    outs = []
    for S in (1, 3):
        c = dict(cfg)
        c["S"] = S
        src, _ = ad.make_source(c, inst)
        be, T, bps, bs = ad.make_backend(c, inst, src)
        be.record(os.path.join(work, "L%d" % S), num_blocks=1, length_mode="num_blocks", header_dict={}, load_template=False, verbose=False)
        blk = guppi.parse_file(os.path.join(work, "L%d.0000.raw" % S))[0]
        outs.append(blk["data"])
        os.remove(os.path.join(work, "L%d.0000.raw" % S))
    twin, _ = ad.make_source(cfg, inst)
    want, tie = ad.reference_bytes(cfg, inst, twin, cfg["U"] * cfg["taps"] + cfg["taps"])[0]
    ctx.evaluations += 2
    ctx.mark(("large-block", cfg["U"], 1))
    ctx.mark(("large-block", cfg["U"], 3))
    for S, got in zip((1, 3), outs):
        if got != want:
            g = guppi.decode_block(got, 1, 1, 8)
            w = guppi.decode_block(want, 1, 1, 8)
            hard = (g != w) & ((tie > 1e-7) | (np.abs(g - w) > 1.5))
            if np.any(hard):
                idx = np.argwhere(hard)[0].tolist()
                ctx.violation(MODULE, "replay:bytes_large_block", {"action": "RecordLargeBlock", "S": S, "spectra_per_block": cfg["U"] * cfg["taps"]},
                              {"first_wrong_chan_time_pol": idx, "n_wrong": int(hard.sum()), "expected": str(w[tuple(idx)]), "observed": str(g[tuple(idx)])})


def core_dir():
    return os.path.dirname(os.path.dirname(os.path.dirname(os.path.abspath(__file__))))


def lemmas(ctx):
    """Thorough tier: the arithmetic lemmas that extrapolate the bounded model to all sizes, by Apalache (unbounded Int)."""
    if ctx.quick():
        return
    status, wall = tlc.apalache_lemmas(ctx.outdir)
    ctx.notes["apalache_ArithLemmas"] = {"status": status, "wall_s": round(wall, 1),
                                         "lemmas": ["SubblockPlan", "PaddingRule", "PieceCount"]}
    if status == "counterexample":
        ctx.violation("ArithLemmas", "apalache:counterexample", {"action": "Lemmas"}, {"see": "apalache-mc check --inv=Lemmas --length=0 ArithLemmas.tla"})


def run(ctx):
    tlc.apalache_inductive(ctx, "S (sub-block loop), B (blocks / files / PKTIDX)")
    lemmas(ctx)
    run_for(ctx, "C02")
    trace_leg(ctx, "C02")
    large_block_leg(ctx)
