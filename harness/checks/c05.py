"""C05: frame axes and frequency/index conversion are exact and orientation-independent (FrameAxes.tla)."""
from .. import tlc
from ..adapters import frameaxes as ad

MODULE = "FrameAxes"


def run(ctx):
    ctx.notes["rule"] = ("abstract frames (F, T, orientation, band position, construction route) x every quarter-channel "
                         "query position from FrameAxes.tla, each instantiated on 6 (df, dt, f0) geometries / 2 backend "
                         "parameter sets; distinct = distinct (abstract frame, geometry)")
    ctx.assume("floats are placed on the grid with exact Fractions; tolerance max(1e-6 channel, 4 ulp of the absolute "
               "frequency); exact half-channel queries accept either neighbour")
    res = tlc.run(MODULE, "FrameAxes_MC.cfg", ctx.outdir, workers=8, coverage=True)
    ctx.add_tlc(res, "FrameAxes_MC", "M")
    ctx.tlc_violation(res, MODULE, "FrameAxes_MC")
    if res.coverage.get("Compute", (0, 0))[1] == 0:
        raise RuntimeError("vacuity: Compute never taken")
    cfg = tlc.cfg_with("FrameAxes_Gen.cfg", {}, ctx.outdir)
    res = tlc.run(MODULE, cfg, ctx.outdir, workers=1)
    ctx.add_tlc(res, "FrameAxes_Gen", "R-generate")
    if not res.emitted:
        raise RuntimeError("FrameAxes_Gen produced nothing")
    ctx.exhaustive = True
    for n, out in enumerate(res.emitted):
        fr = out["fr"]
        names = list(ad.BACKENDS) if fr["route"] == "backend" else list(ad.GEOMS)
        if ctx.quick():
            names = [names[(n + k) % len(names)] for k in range(2)]
        for gname in dict.fromkeys(names):
            ctx.mark((fr["F"], fr["T"], fr["asc"], fr["lo"], fr["route"], gname))
            ctx.traces += 1
            ctx.steps += 10 + 2 * fr["F"] + len(out["index"])
            if len(ctx.samples) < 2:
                ctx.sample({"leg": "R", "frame": fr, "geometry": gname, "expected_fs_quanta": out["fs"]})
            try:
                ad.check(out, gname)
            except ad.Div as d:
                args = dict(fr)
                args.update({"geometry": gname, "action": d.field.split("[")[0].split("(")[0]})
                ctx.violation(MODULE, "replay:" + d.field.split("[")[0].split("(")[0], args,
                              {"frame": fr, "geometry": gname, "field": d.field, "expected": d.expected, "observed": d.observed})
    # leg T: every frame constructed in recorded frame lives (explicit sizes, from data, unit-carrying arguments, slices,
    # de-drifted and integrated frames, copies, frames loaded from .fil / .h5 / pickle files) and in the repository's own
    # tests must have its axes on the uniform grid C05 describes (FrameTrace.tla clauses C05_*)
    from .frame_t import frame_trace_leg
    frame_trace_leg(ctx, "C05")
