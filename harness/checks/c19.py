"""C19: splitting utilities tile the band and the array exactly (Split.tla)."""
import os

from .. import tlc
from ..adapters import split as ad

MODULE = "Split"


def lemmas(ctx):
    """Thorough tier: the arithmetic lemmas that extrapolate the bounded model to all sizes, by Apalache (unbounded Int)."""
    if ctx.quick():
        return
    status, wall = tlc.apalache_lemmas(ctx.outdir)
    ctx.notes["apalache_ArithLemmas"] = {"status": status, "wall_s": round(wall, 1),
                                         "lemmas": ["SubblockPlan", "PaddingRule", "PieceCount"]}
    if status == "counterexample":
        ctx.violation("ArithLemmas", "apalache:counterexample", {"action": "Lemmas"}, {"see": "apalache-mc check --inv=Lemmas --length=0 ArithLemmas.tla"})


def run(ctx):
    lemmas(ctx)
    ctx.notes["rule"] = ("band jobs (nchans, fchans, shift, leading integrations, orientation) and array jobs (shape, tile sizes, "
                         "shifts, trim flags) from Split.tla; band jobs on 6 (df, f0) geometries written as real .fil files with "
                         "pixel identities; distinct = distinct (job, geometry)")
    ctx.assume("pixel identities 1000*(row+1) + world channel; piece frequencies compared at 1e-3 channel")
    sets = {"MaxN": "7", "MaxH": "4", "MaxW": "4"} if ctx.quick() else {}
    cfg = tlc.cfg_with("Split_MC.cfg", sets, ctx.outdir)
    res = tlc.run(MODULE, cfg, ctx.outdir, workers=8, coverage=True)
    ctx.add_tlc(res, "Split_MC", "M")
    ctx.tlc_violation(res, MODULE, "Split_MC")
    for a in ("BandStep", "ArrStart", "ArrX", "ArrY"):
        if res.coverage.get(a, (0, 0))[1] == 0:
            raise RuntimeError("vacuity: action %s never taken" % a)
    cfg = tlc.cfg_with("Split_Gen.cfg", {"MaxN": "12", "MaxH": "6", "MaxW": "6"}, ctx.outdir)
    num = ctx.pick(700, 20000)
    res = tlc.run(MODULE, cfg, ctx.outdir, workers=4, simulate=num // 4, depth=80, seed=ctx.seed, timeout=1800)
    ctx.add_tlc(res, "Split_Gen simulate", "R-generate")
    if not res.emitted:
        raise RuntimeError("Split_Gen produced nothing")
    work = os.path.join(ctx.outdir, "split")
    os.makedirs(work, exist_ok=True)
    seen = set()
    nb = 0
    for n, rec in enumerate(res.emitted):
        job = rec["job"]
        if job["kind"] == "band":
            gi = nb % len(ad.GEOMS)
            nb += 1
            key = ("band", gi) + tuple(sorted(job.items()))
        else:
            key = ("array",) + tuple(sorted(job.items()))
        if key in seen:
            continue
        seen.add(key)
        ctx.mark(key)
        ctx.traces += 1
        ctx.steps += len(rec.get("pieces", rec.get("tiles", [])))
        if len(ctx.samples) < 3 and (job["kind"] == "band" or len(ctx.samples) < 1):
            ctx.sample({"leg": "R", "expected": rec})
        try:
            if job["kind"] == "band":
                ad.check_band(rec, ad.GEOMS[gi], work)
            else:
                ad.check_array(rec)
        except ad.Div as d:
            args = dict(job)
            args.update({"action": d.field})
            if job["kind"] == "band":
                args.update({"df": ad.GEOMS[gi]["df"], "exact_multiple": (job["N"] - job["F"]) % job["s"] == 0})
            else:
                ragged = any((t["y1"] - t["y0"], t["x1"] - t["x0"]) != (rec["tiles"][0]["y1"] - rec["tiles"][0]["y0"], rec["tiles"][0]["x1"] - rec["tiles"][0]["x0"])
                             for t in rec["tiles"])
                args.update({"ragged": ragged})
            ctx.violation(MODULE, "replay:" + d.field, args, {"spec": rec, "expected": d.expected, "observed": d.observed})
