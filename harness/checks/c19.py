"""C19: splitting utilities tile the band and the array exactly (Split.tla)."""
import os

from .. import tlc
from ..adapters import split as ad

MODULE = "Split"


def lemmas(ctx):
    """Thorough tier: the arithmetic lemmas that extrapolate the bounded model to all sizes, by Apalache (unbounded Int)."""
    if ctx.quick():
        return
    status, wall = tlc.apalache_lemmas(ctx.outdir)
    ctx.notes["apalache_ArithLemmas"] = {"status": status, "wall_s": round(wall, 1),
                                         "lemmas": ["SubblockPlan", "PaddingRule", "PieceCount"]}
    if status == "counterexample":
        ctx.violation("ArithLemmas", "apalache:counterexample", {"action": "Lemmas"}, {"see": "apalache-mc check --inv=Lemmas --length=0 ArithLemmas.tla"})


def run(ctx):
    lemmas(ctx)
    ctx.notes["rule"] = ("band jobs (nchans, fchans, shift, leading integrations, orientation) and array jobs (shape, tile sizes, "
                         "shifts, trim flags) from Split.tla; band jobs on 6 (df, f0) geometries written as real .fil files with "
                         "pixel identities, up to 4 different splits of one unchanged file into one output directory; array jobs in 6 memory layouts "
                         "(contiguous, views of larger arrays, strided rows, Fortran order, float32); distinct = distinct (job, geometry/layout)")
    ctx.assume("pixel identities 1000*(row+1) + world channel; piece frequencies compared at 1e-3 channel")
    sets = {"MaxN": "7", "MaxH": "4", "MaxW": "4"} if ctx.quick() else {}
    cfg = tlc.cfg_with("Split_MC.cfg", sets, ctx.outdir)
    res = tlc.run(MODULE, cfg, ctx.outdir, workers=8, coverage=True)
    ctx.add_tlc(res, "Split_MC", "M")
    ctx.tlc_violation(res, MODULE, "Split_MC")
    for a in ("BandStep", "ArrStart", "ArrX", "ArrY"):
        if res.coverage.get(a, (0, 0))[1] == 0:
            raise RuntimeError("vacuity: action %s never taken" % a)
    cfg = tlc.cfg_with("Split_Gen.cfg", {"MaxN": "12", "MaxH": "6", "MaxW": "6"}, ctx.outdir)
    num = ctx.pick(700, 20000)
    res = tlc.run(MODULE, cfg, ctx.outdir, workers=4, simulate=num // 4, depth=80, seed=ctx.seed, timeout=1800)
    ctx.add_tlc(res, "Split_Gen simulate", "R-generate")
    if not res.emitted:
        raise RuntimeError("Split_Gen produced nothing")
    # exhaustively: every band job up to 5 channels and every array job up to 3 x 3 (every group of jobs on one file recurs
    # on every run, whatever the seed)
    res2 = tlc.run(MODULE, tlc.cfg_with("Split_Gen.cfg", {"MaxN": "5", "MaxH": "3", "MaxW": "3"}, ctx.outdir), ctx.outdir, workers=1, timeout=1800)
    ctx.add_tlc(res2, "Split_Gen MaxN=5 MaxH=MaxW=3 (exhaustive)", "R-generate")
    if not res2.emitted:
        raise RuntimeError("Split_Gen exhaustive produced nothing")
    res.emitted.extend(res2.emitted)
    work = os.path.join(ctx.outdir, "split")
    os.makedirs(work, exist_ok=True)
    # band jobs are grouped by input file (same N, T, orientation): one file, one output directory, several splits of
    # the unchanged input with different piece sizes / shifts / leading integrations (stale pieces must be overwritten)
    seen = set()
    groups, arrays = {}, []
    for rec in res.emitted:
        job = rec["job"]
        key = tuple(sorted(job.items()))
        if key in seen:
            continue
        seen.add(key)
        if job["kind"] == "band":
            groups.setdefault((job["N"], job["T"], job["asc"]), []).append(rec)
        else:
            arrays.append(rec)

    def report(rec, d, extra):
        args = dict(rec["job"])
        args.update({"action": d.field})
        args.update(extra)
        ctx.violation(MODULE, "replay:" + d.field, args, {"spec": rec, "expected": d.expected, "observed": d.observed})

    for gn, (gkey, recs) in enumerate(sorted(groups.items())):
        # the members of a group are spread over the geometries in chunks of up to 4 jobs per written file
        for c0 in range(0, len(recs), 4):
            chunk = recs[c0:c0 + 4]
            gi = (gn + c0 // 4) % len(ad.GEOMS)
            path = ad.write_band(chunk[0]["job"], ad.GEOMS[gi], work)
            try:
                for rec in chunk:
                    job = rec["job"]
                    ctx.mark(("band", gi) + tuple(sorted(job.items())))
                    ctx.traces += 1
                    ctx.steps += len(rec["pieces"])
                    if len(ctx.samples) < 2:
                        ctx.sample({"leg": "R", "expected": rec, "jobs_on_this_file": len(chunk)})
                    try:
                        ad.check_band(rec, ad.GEOMS[gi], work, path=path)
                    except ad.Div as d:
                        report(rec, d, {"df": ad.GEOMS[gi]["df"], "exact_multiple": (job["N"] - job["F"]) % job["s"] == 0,
                                        "nth_split_of_file": chunk.index(rec) + 1})
            finally:
                if os.path.exists(path):
                    os.remove(path)
    for n, rec in enumerate(arrays):
        job = rec["job"]
        layout = ad.LAYOUTS[(n + ctx.seed) % len(ad.LAYOUTS)]
        ctx.mark(("array", layout) + tuple(sorted(job.items())))
        ctx.traces += 1
        ctx.steps += len(rec["tiles"])
        if len(ctx.samples) < 3:
            ctx.sample({"leg": "R", "expected": rec, "layout": layout})
        try:
            ad.check_array(rec, layout)
        except ad.Div as d:
            t0 = rec["tiles"][0] if rec["tiles"] else None
            ragged = any((t["y1"] - t["y0"], t["x1"] - t["x0"]) != (t0["y1"] - t0["y0"], t0["x1"] - t0["x0"]) for t in rec["tiles"])
            report(rec, d, {"ragged": ragged, "layout": layout})
