"""C11: synthetic noise has the requested distribution; SNR bookkeeping is consistent (Noise.tla)."""
from .. import tlc
from ..adapters import noise as ad

MODULE = "Noise"


def run(ctx):
    ctx.notes["rule"] = ("behaviours = (df*dt in {1, 1.4, 1.5, 1.6, 2, 2.5, 2.7, 51}, dt in {1, 1.5, 2}, tchans) x sequences of add_noise (chi2 / gaussian / "
                         "truncated) / add_noise_from_obs (shared or separate index, identity tables or the built-in tables) / zero_data / add_signal / "
                         "SNR queries / stream and background add_noise, user-defined sources and update_noise, drawn by TLC from Noise.tla; frames of 60000 pixels at intensity scales 1, 4e6, 1e-3, 1e-10; "
                         "distinct = distinct behaviours")
    ctx.assume("statistical claims: sample mean and variance of every added noise array within 6.5 standard errors of the "
               "mean / variance named by the spec (chi2: x_mean, 2 x_mean^2 / k; standard errors from the sample's fourth "
               "moment); false-alarm probability < 1e-6 per run")
    ctx.assume("exact-half df*dt accepts either neighbour for k; the sigma-clipped re-estimate is recomputed with astropy")
    ops = ctx.pick(3, 4)
    cfg = tlc.cfg_with("Noise_MC.cfg", {"MaxOps": str(ops)}, ctx.outdir)
    res = tlc.run(MODULE, cfg, ctx.outdir, workers=8, coverage=True)
    ctx.add_tlc(res, "Noise_MC MaxOps=%d" % ops, "M")
    ctx.tlc_violation(res, MODULE, "Noise_MC")
    for a in ("NoiseStep", "AddNoiseFromObs", "AddNoiseFromObsRefused", "ZeroData", "AddSignal", "QuerySnr", "StreamAddNoise", "BgAddNoise", "StreamAddSource", "StreamUpdateNoise", "BgAddSource", "BgUpdateNoise"):
        if res.coverage.get(a, (0, 0))[1] == 0:
            raise RuntimeError("vacuity: action %s never taken" % a)
    depth, num = ctx.pick(7, 9), ctx.pick(280, 6000)
    cfg = tlc.cfg_with("Noise_Gen.cfg", {"MaxOps": str(depth)}, ctx.outdir)
    res = tlc.run(MODULE, cfg, ctx.outdir, workers=4, simulate=num // 4, depth=depth + 2, seed=ctx.seed)
    ctx.add_tlc(res, "Noise_Gen simulate depth=%d" % depth, "R-generate")
    if not res.emitted:
        raise RuntimeError("Noise_Gen produced nothing")
    # every sequence of 4 (thorough: 5) steps over the voltage-side alphabet of one stream and one background
    d2 = ctx.pick(4, 5)
    res2 = tlc.run(MODULE, tlc.cfg_with("Noise_Gen.cfg", {"MaxOps": str(d2), "Focus": '"streams"'}, ctx.outdir), ctx.outdir, workers=1)
    ctx.add_tlc(res2, "Noise_Gen Focus=streams depth=%d (exhaustive)" % d2, "R-generate")
    if not res2.emitted:
        raise RuntimeError("Noise_Gen Focus=streams produced nothing")
    res.emitted.extend(res2.emitted)
    for n, beh in enumerate(res.emitted):
        steps = [s for s in beh["steps"] if s["act"]["name"] != "Done"]
        ctx.mark((beh["geo"]["dfdt10"], beh["geo"]["T"], beh["geo"]["dt2"]) + tuple(tuple(sorted((k, str(v)) for k, v in s["act"].items())) for s in steps))
        ctx.traces += 1
        ctx.steps += len(steps)
        if len(ctx.samples) < 2:
            ctx.sample({"leg": "R", "geo": beh["geo"], "k": beh["k"], "actions": [s["act"] for s in steps],
                        "expected_estimates": [s["est"] for s in steps]})
        scale = ad.SCALES[(n + ctx.seed) % len(ad.SCALES)]
        for fn in (lambda b, sd: ad.replay_frame(b, sd, scale), ad.replay_streams):
            d = fn(beh, ctx.seed + n)
            if d is not None:
                act = steps[min(d.step, len(steps) - 1)]["act"]
                args = dict(act)
                args.update({"scale": scale, "dfdt10": beh["geo"]["dfdt10"], "dt2": beh["geo"]["dt2"], "T": beh["geo"]["T"], "action": act["name"], "field": d.field.split("[")[0]})
                ctx.violation(MODULE, "replay:" + d.field.split("[")[0], args,
                              {"geo": beh["geo"], "actions": [s["act"] for s in steps[:d.step + 1]], "field": d.field,
                               "expected": d.expected, "observed": d.observed})
    from .frame_t import frame_trace_leg
    frame_trace_leg(ctx, "C11")
