"""C03: save/load through .fil/.h5 preserves data and axis registration (FrameLife.tla).
Shared runner for C17 (derived frames)."""
import os

from .. import tlc
from ..adapters import framelife as ad

MODULE = "FrameLife"
ACTIONS = ["Create", "GetWaterfall", "CopyOp", "PickleOp", "Mutate", "ShiftTs", "Rebind", "Slice", "Dedrift", "Integrate", "Save", "SaveFail", "Load", "LoadSub", "LoadT"]


def run_for(ctx, pid):
    ctx.assume("pixel identities 1000*(row+1) + world channel (exact in float32); blimpy.Waterfall is the independent file "
               "reader; start time compared at 1e-4 s (MJD header precision); frequencies on the grid at 1e-3 channel")
    ops = ctx.pick(3, 4)
    cfg = tlc.cfg_with("FrameLife_MC.cfg", {"MaxOps": str(ops)}, ctx.outdir)
    res = tlc.run(MODULE, cfg, ctx.outdir, workers=8, coverage=True, timeout=2400)
    ctx.add_tlc(res, "FrameLife_MC MaxOps=%d" % ops, "M")
    ctx.tlc_violation(res, MODULE, "FrameLife_MC")
    if not ctx.quick():
        # deeper exhaustive runs over the two small alphabets (the full alphabet to depth 5 is 13 million states / 36 minutes)
        for focus, deep in (("save", 10), ("derive", 8)) if pid == "C03" else ((("derive", 8),) if pid == "C17" else ()):
            cfg2 = tlc.cfg_with("FrameLife_MC.cfg", {"MaxOps": str(deep), "Focus": '"%s"' % focus, "MaxCreate": "2" if focus == "save" else "1"}, ctx.outdir)
            r2 = tlc.run(MODULE, cfg2, ctx.outdir, workers=8, timeout=2400)
            ctx.add_tlc(r2, "FrameLife_MC Focus=%s MaxOps=%d" % (focus, deep), "M")
            ctx.tlc_violation(r2, MODULE, "FrameLife_MC Focus=%s" % focus)
    dead = [a for a in ACTIONS if res.coverage.get(a, (0, 0))[1] == 0]
    if dead:
        raise RuntimeError("vacuity: actions never taken: %s" % dead)
    depth = ctx.pick(6, 8)
    num = ctx.pick(500, 12000)
    cfg = tlc.cfg_with("FrameLife_Gen.cfg", {"MaxOps": str(depth), "MaxObjs": "4", "MaxCreate": "2"}, ctx.outdir)
    res = tlc.run(MODULE, cfg, ctx.outdir, workers=4, simulate=num // 4, depth=depth + 2, seed=ctx.seed, timeout=2400)
    ctx.add_tlc(res, "FrameLife_Gen simulate depth=%d" % depth, "R-generate")
    if not res.emitted:
        raise RuntimeError("FrameLife_Gen produced nothing")
    behs = list(res.emitted)
    if pid == "C03":
        behs += focus_behaviours(ctx)
    else:
        behs += derive_behaviours(ctx)
    replay_list(ctx, behs, pid)


def focus_behaviours(ctx):
    behs = []
    # every sequence over a small alphabet around Waterfall attachment / rebinding the pixel array / save / load
    # (two frames with different source names): exhaustive to depth 4, and a seeded sample of depth 5 (all of them when thorough)
    cfg = tlc.cfg_with("FrameLife_Gen.cfg", {"MaxOps": "4", "MaxObjs": "3", "MaxCreate": "2", "Focus": '"save"'}, ctx.outdir)
    res = tlc.run(MODULE, cfg, ctx.outdir, workers=1, timeout=2400)
    ctx.add_tlc(res, "FrameLife_Gen focus=save depth 4 (exhaustive)", "R-generate")
    behs += res.emitted
    cfg = tlc.cfg_with("FrameLife_Gen.cfg", {"MaxOps": "5", "MaxObjs": "3", "MaxCreate": "2", "Focus": '"save"'}, ctx.outdir)
    res = tlc.run(MODULE, cfg, ctx.outdir, workers=1, timeout=2400)
    ctx.add_tlc(res, "FrameLife_Gen focus=save depth 5 (exhaustive)", "R-generate")
    import random
    rnd = random.Random(ctx.seed)
    d5 = list(res.emitted)
    if ctx.quick():
        # behaviours ending in a save are the informative ones
        d5 = [b for b in d5 if b[-2]["act"]["name"] == "Save"]
        d5 = rnd.sample(d5, min(len(d5), 200))
    behs += d5
    return behs


def derive_behaviours(ctx):
    """Every sequence over a small alphabet around replaced time axes (shifted / gapped, as Cadence.consolidate makes
    them) and derived frames: create, replace the time axis, copy / pickle / mutate / slice / de-drift / integrate."""
    depth = ctx.pick(3, 4)
    cfg = tlc.cfg_with("FrameLife_Gen.cfg", {"MaxOps": str(depth), "MaxObjs": "3", "MaxCreate": "1", "Focus": '"derive"'}, ctx.outdir)
    res = tlc.run(MODULE, cfg, ctx.outdir, workers=1, timeout=2400)
    ctx.add_tlc(res, "FrameLife_Gen focus=derive depth %d (exhaustive)" % depth, "R-generate")
    if not res.emitted:
        raise RuntimeError("FrameLife_Gen focus=derive produced nothing")
    behs = list(res.emitted)
    # and every sequence (depth 4) over the alphabet around the per-frame bookkeeping dictionary: frames created with a
    # drift rate in it, copies, slices, add_metadata on parents and children, de-drifting "from metadata"
    cfg = tlc.cfg_with("FrameLife_Gen.cfg", {"MaxOps": "4", "MaxObjs": "3", "MaxCreate": "1", "Focus": '"meta"'}, ctx.outdir)
    res = tlc.run(MODULE, cfg, ctx.outdir, workers=1, timeout=2400)
    ctx.add_tlc(res, "FrameLife_Gen focus=meta depth 4 (exhaustive)", "R-generate")
    if not res.emitted or not any(s_["act"]["name"] == "DedriftMeta" for b in res.emitted for s_ in b if s_ != "done" and isinstance(s_, dict)):
        raise RuntimeError("FrameLife_Gen focus=meta produced no de-drift from metadata")
    return behs + list(res.emitted)


def replay_list(ctx, behs, pid):
    work = os.path.join(ctx.outdir, "files")
    os.makedirs(work, exist_ok=True)
    gl = list(ad.GEOMS)
    for n, beh in enumerate(behs):
        steps = [s for s in beh if s["act"]["name"] != "Done"]
        gname = gl[n % len(gl)]
        ctx.mark((gname,) + tuple(tuple(sorted((k, str(v)) for k, v in s["act"].items())) for s in steps))
        ctx.traces += 1
        ctx.steps += len(steps)
        if len(ctx.samples) < 2:
            ctx.sample({"leg": "R", "geometry": gname, "actions": [s["act"] for s in steps]})
        for d in ad.replay(beh, gname, work, ("f%d" if len(behs) > 1000 and n >= 500 else "b%d") % n):
            if pid in d.cls.split("|"):
                report(ctx, d, steps, gname)


def report(ctx, d, steps, gname):
    if True:
        act = steps[d.step]["act"]
        parent_wf = None
        if "o" in act and d.step > 0:
            parent_wf = steps[d.step - 1]["wf"][act["o"] - 1] if act["o"] - 1 < len(steps[d.step - 1]["wf"]) else None
        args = dict(act)
        args.update({"geometry": gname, "action": act["name"], "field": d.field.split(".")[-1], "parent_has_waterfall": parent_wf,
                     "history": "/".join(s["act"]["name"] for s in steps[:d.step])})
        ctx.violation(MODULE, "replay:" + d.field, args, {"geometry": gname, "actions": [s["act"] for s in steps[:d.step + 1]],
                                                       "field": d.field, "expected": d.expected, "observed": d.observed})


def run(ctx):
    ctx.notes["rule"] = ("behaviours = sequences of create (sizes / from_data, both orientations) / get_waterfall / copy / mutate / "
                         "slice / dedrift / integrate / save (.fil, .h5) / load over up to 4 live frames, drawn by TLC from "
                         "FrameLife.tla, on 3 geometries; distinct = distinct (geometry, action sequence)")
    run_for(ctx, "C03")
    from .frame_t import frame_trace_leg
    frame_trace_leg(ctx, "C03")
