"""X03 (extension, not one of the listed properties): file names of a recording (RawNames.tla): record() writes
<stem>.NNNN.raw and raw_utils.get_stem is its inverse, so that get_raw_params / from_data find the recording again from
any of its files.  Divergences are printed as EXTRA-FINDING lines, never as violations of C01-C20."""
import os
import tempfile

from setigen.voltage import raw_utils

from .. import tlc


def run(ctx):
    ctx.notes["rule"] = "stems (1-3 dot-separated tokens) x file indices of RawNames.tla; distinct = distinct (stem, index)"
    res = tlc.run("RawNames", "RawNames_MC.cfg", ctx.outdir, workers=2, coverage=True)
    ctx.add_tlc(res, "RawNames_MC", "M")
    ctx.tlc_violation(res, "RawNames", "RawNames_MC")
    res = tlc.run("RawNames", "RawNames_Gen.cfg", ctx.outdir, workers=1)
    ctx.add_tlc(res, "RawNames_Gen", "R-generate")
    if not res.emitted:
        raise RuntimeError("RawNames_Gen produced nothing")
    findings, as_built_wrong = [], 0
    with tempfile.TemporaryDirectory(prefix="verif_names_") as d:
        for out in res.emitted:
            ctx.traces += 1
            ctx.mark((tuple(out["stem"]), out["idx"]))
            if len(ctx.samples) < 1:
                ctx.sample({"leg": "R", "expected": out})
            fn = os.path.join(d, ".".join(out["file"]))
            first = os.path.join(d, ".".join(out["first"]))
            open(first, "wb").close()                       # the first file of the recording exists
            got = str(raw_utils.get_stem(fn))
            want = os.path.join(d, ".".join(out["want"]))
            model = os.path.join(d, ".".join(out["asbuilt"]))
            if got != model:
                as_built_wrong += 1                          # the as-built folding of the module does not describe the code
            if got != want or not os.path.exists(got + ".0000.raw"):
                findings.append({"file": ".".join(out["file"]), "expected_stem": ".".join(out["want"]), "observed_stem": os.path.basename(got),
                                 "first_file_found": os.path.exists(got + ".0000.raw")})
            os.remove(first)
    if as_built_wrong:
        raise RuntimeError("RawNames.tla AsBuilt does not describe raw_utils.get_stem in %d cases" % as_built_wrong)
    if findings:
        print("EXTRA-FINDING (not a listed property): get_stem diverges from the extension specification for stems containing "
              "a dot (%d of %d cases), e.g. %s" % (len(findings), len(res.emitted), findings[0]))
    ctx.notes["extra_findings"] = ["get_stem"] if findings else []
    ctx.notes["extra_finding_count"] = len(findings)
