"""C14: injection onto existing RAW: exact decode, same framing, stationary gain (InputMode.tla)."""
import os

from .. import tlc
from ..adapters import inputmode as ad

MODULE = "InputMode"


def run_for(ctx, pid, num_quick=120, num_thorough=648):
    res = tlc.run(MODULE, "InputMode_MC.cfg", ctx.outdir, workers=8, coverage=True)
    ctx.add_tlc(res, "InputMode_MC", "M")
    ctx.tlc_violation(res, MODULE, "InputMode_MC")
    for a in ("Begin", "Open", "Read", "SubBlock", "Write"):
        if res.coverage.get(a, (0, 0))[1] == 0:
            raise RuntimeError("vacuity: action %s never taken" % a)
    cfg = tlc.cfg_with("InputMode_Gen.cfg", {}, ctx.outdir)
    if ctx.quick():
        res = tlc.run(MODULE, cfg, ctx.outdir, workers=4, simulate=num_quick // 4, depth=200, seed=ctx.seed)
    else:
        res = tlc.run(MODULE, cfg, ctx.outdir, workers=1)
    ctx.add_tlc(res, "InputMode_Gen", "R-generate")
    if not res.emitted:
        raise RuntimeError("InputMode_Gen produced nothing")
    work = os.path.join(ctx.outdir, "raw14")
    os.makedirs(work, exist_ok=True)
    seen = set()
    for exp in res.emitted:
        key = tuple(sorted(exp["cfg"].items()))
        if key in seen:
            continue
        seen.add(key)
        divs, inst = ad.run_config(exp, ctx.seed, work)
        ctx.traces += 1
        ctx.steps += sum(len(r["reads"]) + len(r["gains"]) for r in exp["recs"])
        ctx.mark(key + tuple(sorted((k, str(v)) for k, v in inst.items())))
        if len(ctx.samples) < 2:
            ctx.sample({"leg": "R", "cfg": exp["cfg"], "instantiation": inst, "expected_recordings": exp["recs"]})
        for d in divs:
            if pid not in d.cls.split("|"):
                continue
            args = dict(exp["cfg"])
            args.update({k: v for k, v in inst.items()})
            args.update({"action": "RecordOnInput", "field": d.field})
            ctx.violation(MODULE, "replay:" + d.field, args, {"cfg": exp["cfg"], "instantiation": inst, "expected": d.expected,
                                                            "observed": d.observed})


def run(ctx):
    ctx.notes["rule"] = ("configurations (input blocks per file, files, partial last file, requested blocks <, =, > input or "
                         "omitted, sub-block count, digitiser on/off) from InputMode.tla, instantiated with bit depth, pols, "
                         "antennas, channels, DIRECTIO absent/0/1, 0-33 extra cards, tone or nothing injected; distinct = "
                         "distinct (configuration, instantiation)")
    ctx.assume("input recordings written by harness/guppi.py with random integer content over the full range; the real "
               "pipeline is observed through wrappers on _read_next_block and the requantisers' RealQuantizer.quantize")
    ctx.assume("sub-block counts divide the windows per block in this check (non-dividing partitions are C02's)")
    run_for(ctx, "C14")
