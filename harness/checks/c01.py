"""C01: the injected signal equals the pointwise product of its four components (Injection.tla).
Shared runner for C06 (same behaviours, other divergence classes)."""
import os

import numpy as np

from .. import tlc
from ..adapters import injection as ad

MODULE = "Injection"


def model_check(ctx, family):
    cfg = tlc.cfg_with("Injection_MC.cfg", {"Family": '"%s"' % family}, ctx.outdir)
    res = tlc.run(MODULE, cfg, ctx.outdir, workers=8, coverage=True, timeout=1800)
    ctx.add_tlc(res, "Injection_MC family=%s" % family, "M")
    ctx.tlc_violation(res, MODULE, "Injection_MC " + family)
    for a in ("PickWhole", "Inject"):
        if res.coverage.get(a, (0, 0))[1] == 0:
            raise RuntimeError("vacuity: action %s never taken (family %s)" % (a, family))


def generate(ctx, family, max_inj, simulate=None):
    cfg = tlc.cfg_with("Injection_Gen.cfg", {"Family": '"%s"' % family, "MaxInj": str(max_inj)}, ctx.outdir)
    if simulate:
        res = tlc.run(MODULE, cfg, ctx.outdir, workers=4, simulate=max(1, simulate // 4), depth=6 * max_inj + 4, seed=ctx.seed, timeout=1800)
    else:
        res = tlc.run(MODULE, cfg, ctx.outdir, workers=1, timeout=1800)
    ctx.add_tlc(res, "Injection_Gen family=%s MaxInj=%d%s" % (family, max_inj, " simulate" if simulate else ""), "R-generate")
    if not res.emitted:
        raise RuntimeError("Injection_Gen (%s) produced nothing" % family)
    return res.emitted


def replay_all(ctx, behs, pid, label, geoms):
    work = os.path.join(ctx.outdir, "inj")
    os.makedirs(work, exist_ok=True)
    gl = list(ad.GEOMS)
    for n, beh in enumerate(behs):
        names = gl if geoms == "all" else [gl[n % len(gl)]]
        for gname in names:
            key = (gname, beh["geo"]["F"], beh["geo"]["T"], beh["geo"]["asc"], beh["prior"],
                   tuple(tuple(sorted((k, str(v)) for k, v in s["cfg"].items())) for s in beh["steps"]))
            ctx.mark(key)
            ctx.traces += 1
            ctx.steps += len(beh["steps"])
            if len(ctx.samples) < 2:
                ctx.sample({"leg": "R", "source": label, "geometry": gname, "geo": beh["geo"], "prior": beh["prior"],
                            "cfg": beh["steps"][0]["cfg"], "status": beh["steps"][0]["status"],
                            "expected_numerators": beh["steps"][0]["returned"], "den": beh["steps"][0]["den"]})
            ds = [x for x in ad.replay(beh, gname, work, from_file=(n % 10 == 0)) if pid in x.cls.split("|")]
            if not ds:
                continue
            d = ds[0]
            c = beh["steps"][d.step]["cfg"]
            args = {k: (v if not isinstance(v, list) else str(v)) for k, v in c.items()}
            args.update({"geometry": gname, "F": beh["geo"]["F"], "T": beh["geo"]["T"], "asc": beh["geo"]["asc"],
                         "prior": beh["prior"], "action": "AddSignal", "field": d.field,
                         "range_class": range_class(c, beh["geo"]["F"])})
            ctx.violation(MODULE, "replay:" + d.field, args, {"geo": beh["geo"], "prior": beh["prior"],
                                                           "configs": [s["cfg"] for s in beh["steps"][:d.step + 1]],
                                                           "geometry": gname, "expected": d.expected, "observed": d.observed})


def range_class(c, F):
    if not c["bnd"]:
        return "none"
    b0, b1 = c["bnd"]
    if b1 <= 0:
        return "below"
    if b0 >= F:
        return "above"
    if b0 < 0 or b1 > F:
        return "clipped"
    return "inside" if b1 > b0 else "empty"


def shipped_leg(ctx, n):
    """Shipped path / profile families with random parameters against the statement written out by the harness."""
    rng = np.random.default_rng(ctx.seed + 101)
    for case in ad.shipped_cases(rng, n):
        fr, mk = ad.build_shipped(case)
        p1, t1, f1, b1 = mk()
        p2, t2, f2, b2 = mk()
        bnd = None
        bidx = None
        if case["bnd"]:
            lo, hi = sorted(int(x) for x in rng.integers(-3, case["F"] + 4, size=2))
            bnd = (fr.get_frequency(lo) + 0.2 * fr.df, fr.get_frequency(hi) - 0.2 * fr.df)
            bidx = (min(max(lo, 0), case["F"]), max(min(max(hi, 0), case["F"]), min(max(lo, 0), case["F"])))
        ctx.evaluations += 1
        ctx.mark(("shipped", case["gname"], case["pk"], case["tk"], case["fk"], case["iP"], case["iT"], case["iF"], case["smear"], case["bnd"], case["seed"]))
        try:
            got = fr.add_signal(p1, t1, f1, b1, bounding_f_range=bnd, integrate_path=case["iP"], integrate_t_profile=case["iT"],
                                integrate_f_profile=case["iF"], doppler_smearing=case["smear"] != 0, t_subsamples=case["tsub"],
                                f_subsamples=case["fsub"], smearing_subsamples=max(case["smear"], 1))
        except Exception as e:
            args = {k: (v if not isinstance(v, float) else round(v, 6)) for k, v in case.items()}
            args.update({"action": "AddSignalShipped", "field": "exception", "range_class": "n/a" if bidx is None else ("empty" if bidx[0] == bidx[1] else "some")})
            ctx.violation(MODULE, "shipped:exception", args, {"case": case, "error": "%s: %s" % (type(e).__name__, e)})
            continue
        fr2, _ = ad.build_shipped(case)
        want = ad.documented_average(fr2, p2, t2, f2, b2, case["iP"], case["iT"], case["iF"], case["tsub"], case["fsub"], case["smear"], bidx)
        scale = max(1e-30, float(np.max(np.abs(want))))
        # f - f_centre loses ulp(f) per operation (and the smearing loop accumulates them): scale with the geometry
        rel = 1e-9 + 512 * np.spacing(fr.fmax) / min(case["width"], fr.df)
        if got.shape != want.shape or np.max(np.abs(got - want)) > rel * scale + 1e-12:
            args = {k: (v if not isinstance(v, float) else round(v, 6)) for k, v in case.items()}
            args.update({"action": "AddSignalShipped", "field": "values"})
            ctx.violation(MODULE, "shipped:values", args, {"case": case, "max_abs_diff": float(np.max(np.abs(got - want))), "scale": scale})


def large_grid_leg(ctx):
    """One injection on a frequency grid of more than 2^16 (sub-sampled) columns with smearing, the signal beyond column
    2^16: the documented average written out by the harness, at a scale the model does not enumerate."""
    import setigen as stg
    F, T, fsub, n = 20000, 3, 4, 3
    for asc in (True, False):
        fr = stg.Frame(fchans=F, tchans=T, df=2.0, dt=1.0, fch1=1.0e6 if asc else 1.0e6 + (F - 1) * 2.0, ascending=asc, t_start=0.0, seed=1)
        path = stg.constant_path(f_start=1.0e6 + 18000.3 * 2.0, drift_rate=3.1)
        tp = stg.sine_t_profile(period=2.5, phase=0.2, amplitude=0.5, level=2.0)
        fp = stg.gaussian_f_profile(width=7.0)
        bp = stg.constant_bp_profile(level=0.8)
        got = fr.add_signal(path, tp, fp, bp, integrate_f_profile=True, f_subsamples=fsub, doppler_smearing=True, smearing_subsamples=n)
        fr2 = stg.Frame(fchans=F, tchans=T, df=2.0, dt=1.0, fch1=fr.fch1, ascending=asc, t_start=0.0, seed=1)
        want = ad.documented_average(fr2, path, tp, fp, bp, False, False, True, 1, fsub, n)
        ctx.evaluations += 1
        ctx.mark(("large-grid", F, fsub, n, asc))
        scale = float(np.max(np.abs(want)))
        if got.shape != want.shape or np.max(np.abs(got - want)) > 1e-9 * scale:
            ctx.violation(MODULE, "shipped:large_grid", {"F": F, "fsub": fsub, "smear": n, "asc": asc, "action": "AddSignalLargeGrid"},
                          {"max_abs_diff": float(np.max(np.abs(got - want))), "scale": scale})


def run_for(ctx, pid):
    ctx.assume("probe family (polynomial path, mod-3 time profile, triangle frequency profile, mod-2 bandpass) implemented "
               "over floats by the adapter with the same formulas as Injection.tla; comparison tolerance "
               "1e-9 + 64 ulp(fmax) * 24/df * 16 (geometry-scaled)")
    ctx.assume("left Riemann sub-sample grids are taken as 'the documented average'; array bandpass with a bounding range "
               "or integrate_f_profile, and more than one malformed component at once, are left unspecified")
    fams = ["forms"] if ctx.quick() else ["forms", "ranges", "paths"]
    if pid == "C06":
        fams = ["ranges"] if ctx.quick() else ["forms", "ranges", "paths"]
    for fam in fams:
        model_check(ctx, fam)
    for fam in fams:
        behs = generate(ctx, fam, 1)
        replay_all(ctx, behs, pid, "family " + fam, "rotate" if ctx.quick() else "all")
    if pid == "C06":
        # every sequence of 2 (thorough: 3) injections into one frame over a small set of bounding ranges of equal and
        # different width / place, with and without frequency sub-sampling (exhaustive)
        behs = generate(ctx, "seq", ctx.pick(2, 3))
        replay_all(ctx, behs, pid, "family seq", "rotate")
    behs = generate(ctx, "pick", 1 if pid == "C01" else 3, simulate=ctx.pick(800, 40000))
    replay_all(ctx, behs, pid, "random cross product", "rotate")


def run(ctx):
    ctx.notes["rule"] = ("configurations of Injection.tla: input form of each component (function/array/array of T+1/scalar/"
                         "wrong type/wrong length) x integrate flags x sub-sample counts x smearing copies x bounding range "
                         "class x path start/slope/curvature x width, on 3 geometries and both orientations; plus random "
                         "draws of every shipped path/profile family; distinct = distinct (geometry, configuration)")
    run_for(ctx, "C01")
    shipped_leg(ctx, ctx.pick(300, 6000))
    large_grid_leg(ctx)
