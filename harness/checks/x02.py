"""X02 (extension, not one of the listed properties): statistics derived from observations and integrated frames
(ObsStats.tla): get_parameter_distributions / get_mean_distribution over split windows, TimeSeries.autocorr,
TimeSeries / Spectrum.normalize.  Divergences are printed as EXTRA-FINDING lines, never as violations of C01-C20;
the evidence goes to /verif/evidence_extra/."""
import math
import os

import numpy as np
from astropy.stats import sigma_clip

import setigen as stg

from .. import tlc


def pix(r, c):
    return 100 + ((3 * r + 5 * c + ((r * c) % 4)) % 7)


def run(ctx):
    ctx.notes["rule"] = "configurations (N channels, window F, shift s, rows, leading rows) of ObsStats.tla; distinct = distinct (configuration, orientation)"
    findings = []
    res = tlc.run("ObsStats", "ObsStats_MC.cfg", ctx.outdir, workers=4, coverage=True)
    ctx.add_tlc(res, "ObsStats_MC", "M")
    ctx.tlc_violation(res, "ObsStats", "ObsStats_MC")
    if res.coverage.get("Compute", (0, 0))[1] == 0:
        raise RuntimeError("vacuity: Compute never taken")
    res = tlc.run("ObsStats", "ObsStats_Gen.cfg", ctx.outdir, workers=4, simulate=ctx.pick(60, 1500), depth=5, seed=ctx.seed)
    ctx.add_tlc(res, "ObsStats_Gen simulate", "R-generate")
    if not res.emitted:
        raise RuntimeError("ObsStats_Gen produced nothing")
    work = os.path.join(ctx.outdir, "obs")
    os.makedirs(work, exist_ok=True)
    seen = set()
    for n, out in enumerate(res.emitted):
        c = out["cfg"]
        asc = bool(n % 2)
        key = tuple(sorted(c.items())) + (asc,)
        if key in seen:
            continue
        seen.add(key)
        ctx.mark(key)
        ctx.traces += 1
        N, T = c["N"], c["T"]
        rows = c["Tsel"] or T
        fr = stg.Frame(fchans=N, tchans=T, df=2.0, dt=1.0, fch1=1.0e9 if asc else 1.0e9 + 2.0 * (N - 1), ascending=asc, t_start=1.6e9)
        # file column k holds Pix(r, k): in memory (increasing frequency) a descending file is reversed
        fr.data = np.array([[float(pix(r, k if asc else N - 1 - k)) for k in range(N)] for r in range(T)])
        path = os.path.join(work, "obs.fil")
        fr.save_fil(path)
        if len(ctx.samples) < 1:
            ctx.sample({"leg": "R", "expected": out, "ascending": asc})
        try:
            tsel = c["Tsel"] or None
            means, stds, mins = stg.get_parameter_distributions(path, c["F"], tchans=tsel, f_shift=c["s"])
            means2 = stg.get_mean_distribution(path, c["F"], tchans=tsel, f_shift=c["s"])
            want = out["pieces"]
            if len(means) != len(want) or len(stds) != len(want) or len(mins) != len(want) or len(means2) != len(want):
                findings.append(("entries_per_window", c, asc, {"expected": len(want), "observed": [len(means), len(stds), len(mins), len(means2)]}))
            else:
                for i, w in enumerate(want):
                    vals = np.array([pix(r, k) for r in range(rows) for k in range(i * c["s"], i * c["s"] + c["F"])], dtype=float)
                    if sigma_clip(vals, sigma=3, maxiters=5, masked=False).size != vals.size:
                        continue                  # the 3-sigma clip removes something from this window: not judged
                    m = w["sum"] / w["count"]
                    sd = math.sqrt(max(w["sumsq"] / w["count"] - m * m, 0.0))
                    if abs(means[i] - m) > 1e-4 or abs(stds[i] - sd) > 1e-4 or abs(mins[i] - w["min"]) > 1e-4 or abs(means2[i] - m) > 1e-4:
                        findings.append(("window_statistics", c, asc, {"window": i, "expected": [m, sd, w["min"]],
                                                                       "observed": [float(means[i]), float(stds[i]), float(mins[i]), float(means2[i])]}))
                        break
        except (SystemExit, Exception) as e:
            findings.append(("exception", c, asc, "%s: %s" % (type(e).__name__, str(e)[:120])))
        finally:
            if os.path.exists(path):
                os.remove(path)
        # time series of the same frame (per-row sums), its autocorrelation and normalisation
        ser = np.array(out["series"], dtype=float)
        ts = stg.timeseries(fr, mode="sum")
        if ts.data.shape != (T, 1) or np.max(np.abs(ts.data[:, 0] - ser)) > 1e-6:
            findings.append(("timeseries_sum", c, asc, {"expected": ser.tolist(), "observed": ts.data[:, 0].tolist()}))
            continue
        acov = [out["acov"][str(k)] if isinstance(out["acov"], dict) else out["acov"][k] for k in range(T)]
        if acov[0] != 0:
            got = ts.autocorr()
            w = np.array(acov, dtype=float) / acov[0]
            if got.shape != w.shape or np.max(np.abs(got - w)) > 1e-9:
                findings.append(("autocorr", c, asc, {"expected": w.tolist(), "observed": np.asarray(got).tolist()}))
            if acov[1] != 0:
                got = ts.acf(remove_spike=True)
                w = np.array([acov[1]] + acov[1:], dtype=float) / acov[1]
                if got.shape != w.shape or np.max(np.abs(got - w)) > 1e-9 * max(1.0, np.max(np.abs(w))):
                    findings.append(("autocorr.remove_spike", c, asc, {"expected": w.tolist(), "observed": np.asarray(got).tolist()}))
        ts.normalize()
        w = T * ser / out["seriesSum"]
        if np.max(np.abs(ts.data[:, 0] - w)) > 1e-12 or abs(np.mean(ts.data) - 1.0) > 1e-12:
            findings.append(("timeseries.normalize", c, asc, {"expected": w.tolist(), "observed": ts.data[:, 0].tolist()}))
    ctx.notes["extra_findings"] = [{"what": f[0], "cfg": f[1], "ascending": f[2], "detail": f[3]} for f in findings[:10]]
    ctx.notes["extra_findings_count"] = len(findings)
    kinds = sorted(set(f[0] for f in findings))
    for k in kinds:
        ex = next(f for f in findings if f[0] == k)
        print("EXTRA-FINDING (not a listed property): %s diverges from the extension specification, e.g. cfg=%s ascending=%s %s" % (k, ex[1], ex[2], str(ex[3])[:300]))
