"""Leg T for frames (C11, C06, C17, C03, C12, C05): recorded executions validated against FrameTrace.tla."""
import logging
import json
import os
import subprocess
import sys

from .. import trace
from ..adapters import frametrace


def frame_trace_leg(ctx, pid):
    """Free-form recorded frame lives (harness/adapters/frametrace.py) and the repository's own non-voltage tests run
    under harness/record_frame.py, validated event by event against FrameTrace.tla.  Clauses are owned by the property
    whose id prefixes them; `cont_estimate` (the estimate a frame holds is the one the previous recorded call left)
    belongs to C11 and is judged on driver traces only (a repository test may assign estimates directly); so is
    `C12_data_changed_only_by_own_calls` (the specification switches it off for traces whose header says `strict: false`).
    `cont_file` (recorder and specification count the same saves per path) is a machinery clause: its failure is an error."""
    n = ctx.pick(120, 2000)
    base = 7000003 * ctx.seed + {"C11": 0, "C06": 300000, "C17": 600000, "C03": 1200000, "C12": 1500000, "C05": 1800000}.get(pid, 900000)
    lvl = logging.root.manager.disable
    logging.disable(logging.CRITICAL)          # blimpy narrates every file it writes
    try:
        traces = [frametrace.drive(base + k, nops=ctx.pick(16, 20)) for k in range(n)]
    finally:
        logging.disable(lvl)
    origin = ["driver seed %d" % (base + k) for k in range(n)]
    out = os.path.join(ctx.outdir, "repo_frame_traces.json")
    repo = os.environ.get("VERIF_REPO", "/repo")
    env = dict(os.environ)
    env.update({"PYTHONPATH": os.path.join(os.path.dirname(os.path.dirname(os.path.dirname(os.path.abspath(__file__)))), "harness") + os.pathsep + repo,
                "VERIF_FRAME_TRACE_OUT": out, "TQDM_DISABLE": "1", "MPLBACKEND": "Agg"})
    p = subprocess.run([sys.executable, "-m", "pytest", "-q", "-p", "no:cacheprovider", "-p", "verif_frame_recorder",
                        "--ignore=tests/test_voltage"], cwd=repo, env=env, stdout=subprocess.PIPE,
                       stderr=subprocess.STDOUT, universal_newlines=True, timeout=1800)
    nrepo = 0
    if os.path.exists(out):
        rt = json.load(open(out))
        nrepo = len(rt)
        traces += rt
        origin += ["repository test " + t["h"].get("test", "?") for t in rt]
        os.remove(out)
    if nrepo == 0:
        raise RuntimeError("no frame traces recorded from the repository's tests:\n" + p.stdout[-800:])
    kinds = {}
    for t in traces:
        for ev in t["ev"]:
            k = ev["e"] + ("" if ev.get("st", "ok") == "ok" else "!")
            if ev["e"] == "Derive" and ev.get("from_meta") and ev.get("st") == "ok" and t["h"].get("strict"):
                kinds["Derive-from-own-metadata"] = kinds.get("Derive-from-own-metadata", 0) + 1
            if ev["e"] == "Create" and ev.get("how") in ("file", "pickle") and ev.get("gen", 0) > 0:
                kinds["Load-of-recorded-save:" + ev["how"]] = kinds.get("Load-of-recorded-save:" + ev["how"], 0) + 1
            kinds[k] = kinds.get(k, 0) + 1
    nev = sum(len(t["ev"]) for t in traces)
    accepted, rejects, res = trace.validate("FrameTrace", "FrameTrace.cfg", traces, ctx.outdir)
    ctx.add_tlc(res, "FrameTrace (%d driver + %d repository-test traces, %d events)" % (n, nrepo, nev), "T")
    ctx.traces += len(traces)
    ctx.steps += nev
    ctx.notes["frame_trace_events_by_kind"] = kinds
    for need in ("Create", "Noise", "Noise!", "ZeroData", "Signal", "Signal!", "Snr", "Snr!", "Derive", "Save", "Copy", "Meta", "Info",
                 "Load-of-recorded-save:file", "Load-of-recorded-save:pickle", "Derive-from-own-metadata"):
        if kinds.get(need, 0) == 0:
            raise RuntimeError("vacuity: no %s event in any recorded frame trace" % need)
    if len(ctx.samples) < 4:
        ctx.sample({"leg": "T", "origin": origin[0], "events": [[e["e"], e.get("src"), e.get("st", "ok")] for e in traces[0]["ev"][:12]]})
    for r in rejects:
        t = traces[r["reject"] - 1]
        at = r["at"]
        ev = t["ev"][at - 1] if at - 1 < len(t["ev"]) else {"e": "(end)"}
        why = sorted(r["why"])
        if "cont_file" in why:
            raise RuntimeError("recorder and FrameTrace.tla disagree on the number of saves to a path (%s, event %d)" % (origin[r["reject"] - 1], at))
        mine = [w for w in why if w.startswith(pid + "_")]
        if pid == "C11":
            mine += [w for w in why if w.startswith("no-action")]
            if not origin[r["reject"] - 1].startswith("repository"):
                mine += [w for w in why if w.startswith("cont_")]
        if not mine:
            ctx.notes["rejected_for_other_property"] = ctx.notes.get("rejected_for_other_property", 0) + 1
            continue
        args = {"event": ev["e"], "action": ev["e"], "src": ev.get("src"), "kind": ev.get("kind"), "status": ev.get("st"),
                "clauses": "+".join(mine), "first_noise": (ev.get("before") or {}).get("zero"),
                "how": ev.get("how"), "fmt": ev.get("fmt") or (ev.get("sig") or {}).get("fmt")}
        ctx.violation("FrameTrace", "trace:" + mine[0], args,
                      {"origin": origin[r["reject"] - 1], "event_index": at, "failing_clauses": why, "event": ev,
                       "previous_events": [[e["e"], e.get("src"), e.get("st", "ok")] for e in t["ev"][max(0, at - 6):at - 1]]})
