"""C17: derived frames (slice, de-drift, integrate) keep data and axis registration (FrameLife.tla)."""
from . import c03


def run(ctx):
    ctx.notes["rule"] = ("same behaviours as C03; the divergences judged here are those of slice / dedrift / integrate results "
                         "(columns, row offsets, common band, rejected rates, sums/means, spectrum/time-series axes, orientation, "
                         "resolutions, start time, source name, copy-not-view)")
    c03.run_for(ctx, "C17")
    from .frame_t import frame_trace_leg
    frame_trace_leg(ctx, "C17")
