"""C16: cadence injection is time-continuous and leaves frame time axes intact (CadenceInject.tla)."""
from .. import tlc
from ..adapters import cadinject as ad

MODULE = "CadenceInject"


def run(ctx):
    ctx.notes["rule"] = ("cadences (1-4 frames, back-to-back / gaps / unequal lengths, both orientations) x signal options "
                         "(integrate flags, smearing, sub-sample counts, slope sign, scalar/function time profile) x frame "
                         "subsets (all / stepped slice / tail) x raising callback on the k-th frame for every k, from "
                         "CadenceInject.tla; 2 geometries, plain and ordered cadences; distinct = distinct (geometry, behaviour)")
    ctx.assume("start times are whole multiples of dt; time axes compared at 4 ulp of the shifted magnitude; injected data at "
               "the geometry-scaled tolerance of C01")
    res = tlc.run(MODULE, tlc.cfg_with("CadenceInject_MC.cfg", {"Small": "TRUE" if ctx.quick() else "FALSE"}, ctx.outdir), ctx.outdir, workers=8, coverage=True, timeout=3000)
    ctx.add_tlc(res, "CadenceInject_MC", "M")
    ctx.tlc_violation(res, MODULE, "CadenceInject_MC")
    for a in ("Begin", "Begin2", "Retime", "Shift", "Inject", "Unshift", "Finish"):
        if res.coverage.get(a, (0, 0))[1] == 0:
            raise RuntimeError("vacuity: action %s never taken" % a)
    cfg = tlc.cfg_with("CadenceInject_Gen.cfg", {}, ctx.outdir)
    if ctx.quick():
        res = tlc.run(MODULE, cfg, ctx.outdir, workers=4, simulate=90, depth=60, seed=ctx.seed)
        # and, exhaustively, every pair of subsets (incl. direct frame injection) over the gapped cadence with a smeared path
        res2 = tlc.run(MODULE, tlc.cfg_with("CadenceInject_Gen.cfg", {"Mix": "TRUE"}, ctx.outdir), ctx.outdir, workers=1)
        ctx.add_tlc(res2, "CadenceInject_Gen Mix (exhaustive)", "R-generate")
        if not res2.emitted:
            raise RuntimeError("CadenceInject_Gen Mix produced nothing")
        res.emitted.extend(res2.emitted)
    else:
        res = tlc.run(MODULE, cfg, ctx.outdir, workers=1)
    ctx.add_tlc(res, "CadenceInject_Gen", "R-generate")
    if not res.emitted:
        raise RuntimeError("CadenceInject_Gen produced nothing")
    seen = set()
    for n, rec in enumerate(res.emitted):
        gname = ["dyadic", "bl_hires"][n % 2]
        key = (gname, tuple(rec["cad"]["starts"]), tuple(rec["cad"]["T"]), rec["cad"]["asc"], tuple(rec["sels"]), rec["raiseAt"], rec.get("retime", -1),
               tuple(sorted((k, str(v)) for k, v in rec["sig"].items())))
        if key in seen:
            continue
        seen.add(key)
        ctx.mark(key)
        ctx.traces += 1
        ctx.steps += 3 * len(rec["cad"]["starts"]) * len(rec["sels"]) + 2
        if len(ctx.samples) < 2:
            ctx.sample({"leg": "R", "geometry": gname, "cadence": rec["cad"], "signal": rec["sig"], "subsets": rec["sels"],
                        "raiseAt": rec["raiseAt"], "expected_offsets": [f["offsets"] for f in rec["frames"]]})
        try:
            ad.check(rec, gname, ordered=(n % 3 == 0))
            if n % 4 == 0:
                ad.check_overwrite(rec, gname, 0 if n % 8 else 3)
        except ad.Div as d:
            args = {"geometry": gname, "starts": str(rec["cad"]["starts"]), "T": str(rec["cad"]["T"]), "asc": rec["cad"]["asc"],
                    "sel": "/".join(rec["sels"]), "raiseAt": rec["raiseAt"], "retime": rec.get("retime", -1), "action": d.field.split("[")[0]}
            args.update({k: v for k, v in rec["sig"].items() if k in ("iP", "iT", "iF", "smear", "tForm", "slope", "tsub")})
            ctx.violation(MODULE, "replay:" + d.field.split("[")[0], args, {"record": {k: rec[k] for k in ("cad", "sig", "sels", "raiseAt", "raised", "retime", "starts2")},
                                                                          "field": d.field, "expected": d.expected, "observed": d.observed})
    from . import c18
    c18.trace_leg(ctx, "C16", inject_heavy=True)
