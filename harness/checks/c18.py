"""C18: a cadence is a consistency-guarded list of frames with stable order labels.
Legs: M (Cadence_MC exhaustive), R (every behaviour of Cadence_Gen replayed on real objects,
plus random deeper behaviours from the TLC simulator)."""
import os

from .. import tlc
from ..adapters import cadence as ad

MODULE = "Cadence"


def model_check(ctx, max_ops):
    cfg = tlc.cfg_with("Cadence_MC.cfg", {"MaxOps": str(max_ops)}, ctx.outdir)
    res = tlc.run(MODULE, cfg, ctx.outdir, workers=8, coverage=True)
    ctx.add_tlc(res, "Cadence_MC MaxOps=%d" % max_ops, "M")
    ctx.tlc_violation(res, MODULE, "Cadence_MC")
    dead = [a for a, (d, t) in res.coverage.items() if t == 0 and a in ACTIONS]
    if dead:
        raise RuntimeError("vacuity: actions never taken in Cadence_MC: %s" % dead)
    return res


ACTIONS = ["New", "Insert", "AppendOp", "Extend", "SetItem", "DelItem", "DelSlice", "Pop", "RemoveOp",
           "Reverse", "Clear", "GetItem", "GetSlice", "GetIdx", "GetMask", "ByLabel", "SetOrder",
           "OverwriteTimes"]


def replay_all(ctx, behaviours, label, pids=("C18",)):
    pool = ad.Pool()
    nviol = 0
    for n, beh in enumerate(behaviours):
        d = ad.replay(pool, beh, variant=n)
        ctx.traces += 1
        ctx.steps += len(beh)
        ctx.mark(tuple((s["act"]["name"], s["res"]["st"]) for s in beh) + (tuple(beh[-1]["obs"]["ids"]),))
        if n < 3:
            ctx.sample({"leg": "R", "source": label, "behaviour": [[s["act"], s["res"]] for s in beh]})
        if d is not None:
            act = beh[d["step"]]["act"]
            args = dict(act)
            args["action"] = act["name"]
            args["field"] = d["field"]
            args["ordered"] = beh[0]["act"].get("ordered")
            args["n_before"] = len(beh[d["step"] - 1]["obs"]["ids"]) if d["step"] > 0 else 0
            new = ctx.violation(MODULE, "replay:" + d["field"], args,
                                {"behaviour": [[s["act"], s["res"]] for s in beh[:d["step"] + 1]],
                                 "divergence": d, "source": label})
            nviol += 1 if new else 0
    return nviol


def trace_leg(ctx, pid, inject_heavy=False):
    """Leg T: free-form recorded executions (several cadences sharing frames, up to 16 objects, deep copies, pickles,
    too-short order strings, cadence-wide injections with raising callbacks) and the repository's own cadence tests,
    validated event by event against CadenceTrace.tla.  A rejection names the failing clauses; clauses are owned by
    C18 (list / label / aggregate semantics, continuity between events) or C16 (injection protocol, slew)."""
    import json
    import subprocess
    import sys
    from .. import trace
    from ..adapters import cadtrace
    n = ctx.pick(150, 2500)
    traces = [cadtrace.drive(1000003 * ctx.seed + k + (500000 if inject_heavy else 0), nops=ctx.pick(14, 18), inject_heavy=inject_heavy)
              for k in range(n)]
    origin = ["driver seed %d" % (1000003 * ctx.seed + k + (500000 if inject_heavy else 0)) for k in range(n)]
    out = os.path.join(ctx.outdir, "repo_cadence_traces.json")
    repo = os.environ.get("VERIF_REPO", "/repo")
    env = dict(os.environ)
    env.update({"PYTHONPATH": os.path.join(os.path.dirname(os.path.dirname(os.path.dirname(os.path.abspath(__file__)))), "harness") + os.pathsep + repo,
                "VERIF_CAD_TRACE_OUT": out, "TQDM_DISABLE": "1", "MPLBACKEND": "Agg"})
    p = subprocess.run([sys.executable, "-m", "pytest", "-q", "-p", "no:cacheprovider", "-p", "verif_cadence_recorder",
                        "tests/test_cadence.py", "tests/test_plots.py"], cwd=repo, env=env, stdout=subprocess.PIPE,
                       stderr=subprocess.STDOUT, universal_newlines=True, timeout=900)
    nrepo = 0
    if os.path.exists(out):
        rt = json.load(open(out))
        nrepo = len(rt)
        traces += rt
        origin += ["repository test " + t["h"].get("test", "?") for t in rt]
        os.remove(out)
    if nrepo == 0:
        raise RuntimeError("no cadence traces recorded from the repository's tests:\n" + p.stdout[-800:])
    nev = sum(len(t["ev"]) for t in traces)
    kinds = {}
    for t in traces:
        for ev in t["ev"]:
            kinds[ev["e"]] = kinds.get(ev["e"], 0) + 1
    accepted, rejects, res = trace.validate("CadenceTrace", "CadenceTrace.cfg", traces, ctx.outdir)
    ctx.add_tlc(res, "CadenceTrace (%d driver + %d repository-test traces, %d events)" % (n, nrepo, nev), "T")
    ctx.traces += len(traces)
    ctx.steps += nev
    ctx.notes["trace_events_by_kind"] = kinds
    for need in ("New", "Insert", "SetItem", "GetSlice", "GetIdx", "ByLabel", "SetOrder", "OverwriteTimes", "InjBegin", "Inject", "InjEnd"):
        if kinds.get(need, 0) == 0:
            raise RuntimeError("vacuity: no %s event in any recorded trace" % need)
    if len(ctx.samples) < 4:
        ctx.sample({"leg": "T", "origin": origin[0], "events": [[e["e"], e.get("a"), e.get("st")] for e in traces[0]["ev"][:12]]})
    for r in rejects:
        t = traces[r["reject"] - 1]
        at = r["at"]
        ev = t["ev"][at - 1] if at - 1 < len(t["ev"]) else {"e": "(end)"}
        why = sorted(r["why"])
        mine = [w for w in why if w.startswith(pid + "_")]
        if pid == "C18":
            mine += [w for w in why if w.startswith("adopt_") or w.startswith("no-action")]
            if not origin[r["reject"] - 1].startswith("repository"):
                mine += [w for w in why if w.startswith("cont_")]
        if not mine:
            ctx.notes["rejected_for_other_property"] = ctx.notes.get("rejected_for_other_property", 0) + 1
            continue
        a = ev.get("a") or {}
        args = {"event": ev["e"], "action": ev["e"], "clauses": "+".join(mine), "status": ev.get("st"),
                "ordered": (ev.get("b") or {}).get("ordered"), "form": a.get("form")}
        ctx.violation("CadenceTrace", "trace:" + mine[0], args,
                      {"origin": origin[r["reject"] - 1], "event_index": at, "failing_clauses": why, "event": ev,
                       "previous_events": [[e["e"], e.get("a"), e.get("st")] for e in t["ev"][max(0, at - 6):at - 1]]})


def run(ctx):
    ctx.notes["rule"] = ("behaviours = operation sequences generated by TLC from Cadence.tla (exhaustive to MaxOps "
                         "from 11 start lists x {plain, ordered}; plus random simulator behaviours); distinct = "
                         "distinct (action, outcome) sequences with distinct final list")
    ctx.assume("frame pool: 4 compatible frames (one descending twin), 4 frames differing in one guarded attribute, "
               "one non-frame object; integer times so float arithmetic is exact")
    model_check(ctx, ctx.pick(2, 3))
    # leg R, exhaustive small depth
    gen_ops = ctx.pick(2, 2)
    cfg = tlc.cfg_with("Cadence_Gen.cfg", {"MaxOps": str(gen_ops)}, ctx.outdir)
    res = tlc.run(MODULE, cfg, ctx.outdir, workers=1)
    ctx.add_tlc(res, "Cadence_Gen MaxOps=%d" % gen_ops, "R-generate")
    if not res.emitted:
        raise RuntimeError("Cadence_Gen produced no behaviours")
    replay_all(ctx, res.emitted, "Cadence_Gen exhaustive depth %d" % gen_ops)
    # leg R, random deep behaviours
    depth = ctx.pick(6, 8)
    num = ctx.pick(1600, 40000)
    cfg = tlc.cfg_with("Cadence_Gen.cfg", {"MaxOps": str(depth), "IdxSlack": "2", "Sample": "10"}, ctx.outdir)
    res = tlc.run(MODULE, cfg, ctx.outdir, workers=4, simulate=num // 4, depth=depth + 2, seed=ctx.seed)
    ctx.add_tlc(res, "Cadence_Gen simulate depth=%d num=%d" % (depth, num), "R-generate")
    replay_all(ctx, res.emitted, "Cadence_Gen simulate depth %d" % depth)
    trace_leg(ctx, "C18")
    ctx.notes["behaviours_exhaustive_depth"] = gen_ops
    ctx.notes["behaviours_random_depth"] = depth
