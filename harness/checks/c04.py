"""C04: recorded files are well-formed GUPPI RAW and all readers agree on framing.
M: RawFiles_MC (padding rule, reader mechanisms = structural truth for every listing) + Backend_MC (blocks per file,
   PKTIDX step).   R: spec-generated directories read by the library's readers; spec-generated recordings (files,
   PKTIDX).   T: real recordings with varied header dictionaries parsed by the independent parser and validated by
   RawFilesTrace.tla."""
import os

import numpy as np

from .. import tlc, trace
from ..adapters import rawfiles as ad
from . import c02


def readers_leg(ctx, work):
    res = tlc.run("RawFiles", "RawFiles_MC.cfg", ctx.outdir, workers=8, coverage=True)
    ctx.add_tlc(res, "RawFiles_MC", "M")
    ctx.tlc_violation(res, "RawFiles", "RawFiles_MC")
    if res.coverage.get("Query", (0, 0))[1] == 0:
        raise RuntimeError("vacuity: Query never taken")
    cfg = tlc.cfg_with("RawFiles_Gen.cfg", {}, ctx.outdir)
    if ctx.quick():
        res = tlc.run("RawFiles", cfg, ctx.outdir, workers=4, simulate=300, depth=5, seed=ctx.seed)
    else:
        res = tlc.run("RawFiles", cfg, ctx.outdir, workers=1)
    ctx.add_tlc(res, "RawFiles_Gen", "R-generate")
    if not res.emitted:
        raise RuntimeError("RawFiles_Gen produced nothing")
    seen = set()
    for exp in res.emitted:
        d = exp["dir"]
        key = (d["cards"], d["dio"], d["blocsize"], d["bpf"], d["nfiles"], d["last"], tuple(exp["listing"]))
        if key in seen:
            continue
        seen.add(key)
        ctx.mark(("readers",) + key)
        if len(ctx.samples) < 1:
            ctx.sample({"leg": "R-readers", "expected": exp})
        div = ad.check_readers(exp, work)
        ctx.traces += 1
        ctx.steps += 3 + d["nfiles"]
        if div is not None:
            args = dict(d)
            args.update({"action": div.field, "listing_sorted": list(exp["listing"]) == sorted(exp["listing"]),
                         "aligned": (80 * d["cards"]) % 512 == 0})
            ctx.violation("RawFiles", "reader:" + div.field, args,
                          {"expected": div.expected, "observed": div.observed, "query": exp})


def writer_cases(ctx, n):
    rng = np.random.default_rng(ctx.seed + 404)
    cases = []
    for k in range(n):
        B = int(rng.choice([8, 16]))
        nch = int(rng.integers(1, B // 2 + 1))
        nch = min(nch, 3)
        cases.append({
            "rate": float(rng.choice([1024.0, 3e9, 187.5e6, 2.5e6])), "B": B, "taps": int(rng.choice([2, 4])),
            "U": int(rng.integers(1, 4)), "S": int(rng.integers(1, 4)), "pols": int(rng.choice([1, 2])),
            "bits": int(rng.choice([4, 8])), "nant": int(rng.choice([1, 1, 2])), "nch": nch,
            "start_chan": int(rng.integers(0, B // 2 - nch + 1)), "ascending": bool(rng.integers(2)),
            "fch1": float(rng.choice([0.0, 6e9, 1.4204e9])), "blocks": int(rng.integers(1, 5)), "bpf": int(rng.integers(1, 4)),
            "extra": (k % 40) if k % 9 else 90 + (k % 80),     # sweeps every header length modulo 32 cards; every 9th case a long header (> 128 cards with the template)
            "override": bool(rng.integers(3) == 0), "template": bool(rng.integers(2)),
            "directio": [None, 0, 1, "1", 1][int(rng.integers(5))], "pkt0": [0, 0, 4096][int(rng.integers(3))],
            "seed": int(rng.integers(1 << 30)), "overlap": bool(rng.integers(2)), "prerecord": bool(rng.integers(3) == 0),
        })
    return cases


def writer_leg(ctx, work):
    cases = writer_cases(ctx, ctx.pick(160, 2000))
    traces, details = [], []
    for c in cases:
        try:
            ev, det = ad.record_case(c, work)
        except Exception as e:  # a raising record() is a divergence of its own
            ev, det = [{"e": "Begin", "blocsize": 0, "blocks": 0, "bpf": 1, "pkt0": 0, "spb": 0},
                       {"e": "Raised", "why": "%s: %s" % (type(e).__name__, str(e)[:150])}], []
        traces.append(ev)
        details.append(det)
    ok, rejects, res = trace.validate("RawFilesTrace", "RawFilesTrace.cfg", traces, ctx.outdir)
    ctx.add_tlc(res, "RawFilesTrace (%d recordings)" % len(traces), "T-validate")
    ctx.traces += len(traces)
    ctx.steps += sum(len(t) for t in traces)
    ctx.sample({"leg": "T-writer", "case": cases[0], "trace": traces[0][:3]})
    cards_mod = set()
    for c, t in zip(cases, traces):
        for ev in t:
            if ev["e"] == "Block":
                cards_mod.add(ev["cards"] % 32)
                break
        ctx.mark(("writer", c["extra"], c["template"], str(c["directio"]), c["blocks"], c["bpf"], c["nant"], c["override"]))
    ctx.notes["header_lengths_mod_32_seen"] = sorted(cards_mod)
    for rj in rejects:
        c = cases[rj["reject"] - 1]
        t = traces[rj["reject"] - 1]
        at = rj["at"]
        ev = t[at - 1] if at - 1 < len(t) else {"e": "missing"}
        args = {k: (v if not isinstance(v, float) else v) for k, v in c.items()}
        args.update({"action": "Record", "why": sorted(rj["why"]), "event": ev.get("e"),
                     "aligned": (ev.get("cards", 1) * 80) % 512 == 0 if "cards" in ev else None,
                     "directio_on": ev.get("directio")})
        det = details[rj["reject"] - 1]
        blk = at - 2
        ctx.violation("RawFiles", "trace-reject:" + ",".join(sorted(rj["why"])), args,
                      {"case": c, "rejected_event": ev, "position": at, "why": rj["why"],
                       "owned_bad/user_bad": det[blk] if 0 <= blk < len(det) else None, "trace_head": t[:3]})


def lemmas(ctx):
    """Thorough tier: the arithmetic lemmas that extrapolate the bounded model to all sizes, by Apalache (unbounded Int)."""
    if ctx.quick():
        return
    status, wall = tlc.apalache_lemmas(ctx.outdir)
    ctx.notes["apalache_ArithLemmas"] = {"status": status, "wall_s": round(wall, 1),
                                         "lemmas": ["SubblockPlan", "PaddingRule", "PieceCount"]}
    if status == "counterexample":
        ctx.violation("ArithLemmas", "apalache:counterexample", {"action": "Lemmas"}, {"see": "apalache-mc check --inv=Lemmas --length=0 ArithLemmas.tla"})


def run(ctx):
    tlc.apalache_inductive(ctx, "B (blocks / files / PKTIDX)")
    lemmas(ctx)
    ctx.assume("independent GUPPI framing parser/writer in /verif/harness/guppi.py; directory listing order substituted "
               "through raw_utils.glob.glob; header values compared at 1e-12 relative (card text formatting)")
    work = os.path.join(ctx.outdir, "raw04")
    os.makedirs(work, exist_ok=True)
    readers_leg(ctx, work)
    writer_leg(ctx, work)
    c02.run_for(ctx, "C04", num_quick=80, num_thorough=1500, check_bytes=False)
    ctx.notes["rule"] = ("readers: directories (cards 16..79 = every residue mod 32 twice, DIRECTIO absent/0/1, 1-3 files, "
                         "1-3 blocks per file, last partial, every listing permutation) generated by TLC; writer: real "
                         "recordings with 0..39 extra user cards, owned-field overrides, template on/off, DIRECTIO "
                         "absent/0/1/'1', 1-4 blocks, 1-3 blocks per file, antenna/array, validated as traces; plus the "
                         "Backend configurations of C02 (files, PKTIDX); distinct = distinct configuration tuples")
