"""C08: the polyphase filterbank equals its FIR+DFT definition, invariant to chunking."""
import numpy as np
import scipy.signal

from .. import tlc
from ..adapters import pfb as ad
from setigen.voltage import polyphase_filterbank as pfbm

MODULE = "PFB"


def numeric_leg(ctx):
    """Realistic sizes: the wiring decided by the spec (which rows feed which spectrum, what the cache holds)
    with values from the harness-owned direct definition; a numeric projection, outside TLC."""
    rng = np.random.default_rng(ctx.seed + 5)
    cases = [(2, 8, "hamming"), (4, 16, "hann"), (3, 8, "boxcar"), (8, 64, "hamming"), (4, 32, "blackman"),
             (5, 16, "bartlett"),
             # same taps*branches product and window name, different split (several objects in one process)
             (4, 16, "hamming"), (8, 8, "hamming"), (2, 32, "hamming"), (16, 4, "hamming"), (2, 16, "hann")]
    order = np.random.default_rng(ctx.seed).permutation(len(cases))
    cases = [cases[i] for i in order]
    if not ctx.quick():
        cases += [(8, 1024, "hamming"), (12, 128, "hann"), (6, 256, "hamming"), (7, 64, "flattop")]
    for taps, B, wfn in cases:
        nwin = 6
        N = nwin * taps * B
        for cplx in (False, True):
            x = rng.standard_normal(N) + (1j * rng.standard_normal(N) if cplx else 0)
            args = {"taps": taps, "B": B, "window_fn": wfn, "complex": cplx, "action": "numeric"}
            win = pfbm.get_pfb_window(taps, B, wfn)
            ref_win = scipy.signal.firwin(taps * B, cutoff=1.0 / B, window=wfn, scale=True) * taps * B
            if win.shape != ref_win.shape or np.max(np.abs(win - ref_win)) > 1e-12:
                ctx.violation(MODULE, "numeric:window", args, {"max_abs": float(np.max(np.abs(win - ref_win)))})
            pf = pfbm.PolyphaseFilterbank(num_taps=taps, num_branches=B, window_fn=wfn)
            want = ad.direct_pfb(x, ref_win, taps, B)
            one = pf.channelize(x, cache=False)
            ctx.evaluations += 1
            scale = max(1.0, float(np.max(np.abs(want))))
            if one.shape != want.shape or np.max(np.abs(one - want)) > 1e-9 * scale:
                ctx.violation(MODULE, "numeric:oneshot", args,
                              {"shape": [list(one.shape), list(want.shape)],
                               "max_abs": float(np.max(np.abs(one - want))) if one.shape == want.shape else None})
                continue
            # the same samples handed over in other memory layouts (a column of an interleaved buffer, every other sample of
            # a longer array, a reversed-stride view of the reversed array): same spectra, and chunks of a view chain alike
            inter = np.empty((N, 2), dtype=x.dtype)
            inter[:, 0], inter[:, 1] = x, -7.0
            longer = np.empty(2 * N, dtype=x.dtype)
            longer[::2], longer[1::2] = x, 3.0
            for lname, view in (("column_of_interleaved", inter[:, 0]), ("every_other_sample", longer[::2]), ("negative_stride", x[::-1].copy()[::-1])):
                got = pf.channelize(view, cache=False)
                ctx.evaluations += 1
                if got.shape != one.shape or not np.array_equal(got, one):
                    a2 = dict(args)
                    a2["layout"] = lname
                    ctx.violation(MODULE, "numeric:memory_layout", a2, {"shape": [list(got.shape), list(one.shape)]})
                pf3 = pfbm.PolyphaseFilterbank(num_taps=taps, num_branches=B, window_fn=wfn)
                half = (nwin // 2) * taps * B
                got2 = np.concatenate([pf3.channelize(view[:half], cache=True), pf3.channelize(view[half:], cache=True)], axis=0)
                if got2.shape != one.shape or not np.array_equal(got2, one):
                    a2 = dict(args)
                    a2["layout"] = lname + "/chunked"
                    ctx.violation(MODULE, "numeric:memory_layout", a2, {"shape": [list(got2.shape), list(one.shape)]})
            # linearity
            y = rng.standard_normal(N)
            lin = pf.channelize(2.5 * x - 1.5 * y, cache=False)
            if np.max(np.abs(lin - (2.5 * one - 1.5 * pf.channelize(y, cache=False)))) > 1e-9 * scale:
                ctx.violation(MODULE, "numeric:linearity", args, {})
            # every composition of the stream into admissible chunks returns exactly the one-shot spectra
            for comp in ad.compositions(nwin, ctx.seed, ctx.pick(8, 32)):
                pf2 = pfbm.PolyphaseFilterbank(num_taps=taps, num_branches=B, window_fn=wfn)
                outs, pos = [], 0
                for c in comp:
                    outs.append(pf2.channelize(x[pos:pos + c * taps * B], cache=True))
                    pos += c * taps * B
                got = np.concatenate(outs, axis=0)
                ctx.evaluations += 1
                ctx.mark(("numeric", taps, B, wfn, cplx, tuple(comp)))
                if got.shape != one.shape or not np.array_equal(got, one):
                    a2 = dict(args)
                    a2["composition"] = comp
                    ctx.violation(MODULE, "numeric:chunking", a2,
                                  {"shape": [list(got.shape), list(one.shape)],
                                   "max_abs": float(np.max(np.abs(got - one))) if got.shape == one.shape else None})
            # the stand-alone helper shares the front end (rfft: B/2+1 channels)
            if not cplx:
                gv = pfbm.get_pfb_voltages(x, taps, B, wfn)
                if gv.shape != (want.shape[0], B // 2 + 1) or np.max(np.abs(gv[:, :B // 2] - want)) > 1e-9 * scale:
                    ctx.violation(MODULE, "numeric:get_pfb_voltages", args, {"shape": list(gv.shape)})


def scale_leg(ctx):
    """Instantiations far beyond the model's bounds of statements the model proves for small sizes: OneShotIsPure (a long
    stateless call between two cached chunks), ChunkingInvariant with a silent (all-zero) chunk, and the definition for
    thousands of spectra in one call."""
    from .. import refpipe
    rng = np.random.default_rng(ctx.seed + 9)
    # (a) a silent chunk inside a cached stream (zero padding / gated source), real and complex
    for taps, B in ((4, 16), (2, 8)):
        for cplx in (False, True):
            n = taps * B
            x = rng.standard_normal(6 * n) + (1j * rng.standard_normal(6 * n) if cplx else 0)
            for silent in ((2,), (5,), (3, 4)):
                y = x.copy()
                for k in silent:
                    y[k * n:(k + 1) * n] = 0
                pf = pfbm.PolyphaseFilterbank(num_taps=taps, num_branches=B)
                outs = [pf.channelize(y[k * n:(k + 1) * n], cache=True) for k in range(6)]
                got = np.concatenate(outs, axis=0)
                one = pfbm.PolyphaseFilterbank(num_taps=taps, num_branches=B).channelize(y, cache=False)
                ctx.evaluations += 1
                ctx.mark(("silent", taps, B, cplx, silent))
                if got.shape != one.shape or not np.array_equal(got, one):
                    ctx.violation(MODULE, "numeric:silent_chunk", {"taps": taps, "B": B, "complex": cplx, "silent_chunks": list(silent), "action": "numeric"},
                                  {"max_abs": float(np.max(np.abs(got - one))) if got.shape == one.shape else "shape"})
    # (b) thousands of spectra in one call (not a power of two) against the definition
    taps, B, windows = 4, 1024, 1501
    x = rng.standard_normal(windows * taps * B)
    pf = pfbm.PolyphaseFilterbank(num_taps=taps, num_branches=B)
    got = pf.channelize(x, cache=False)
    want = refpipe.pfb_ref(x, taps, B)
    ctx.evaluations += 1
    ctx.mark(("many-spectra", taps, B, windows))
    if got.shape != want.shape or np.max(np.abs(got - want)) > 1e-8 * np.max(np.abs(want)):
        bad = np.argwhere(np.max(np.abs(got - want), axis=1) > 1e-8 * np.max(np.abs(want))) if got.shape == want.shape else []
        ctx.violation(MODULE, "numeric:many_spectra", {"taps": taps, "B": B, "windows": windows, "action": "numeric"},
                      {"shape": [list(got.shape), list(want.shape)], "first_wrong_spectrum": int(bad[0][0]) if len(bad) else None, "n_wrong": int(len(bad))})
    # (c) a very long stateless call (> 2^24 samples) between two cached chunks leaves the stream's cache alone
    taps, B = 8, 1024
    n = taps * B
    pf = pfbm.PolyphaseFilterbank(num_taps=taps, num_branches=B)
    a, b = rng.standard_normal(2 * n), rng.standard_normal(3 * n)
    o1 = pf.channelize(a, cache=True)
    big = rng.standard_normal(2 ** 24 + n)
    pf.channelize(big, cache=False)
    del big
    o2 = pf.channelize(b, cache=True)
    one = pfbm.PolyphaseFilterbank(num_taps=taps, num_branches=B).channelize(np.concatenate([a, b]), cache=False)
    got = np.concatenate([o1, o2], axis=0)
    ctx.evaluations += 1
    ctx.mark(("long-uncached", taps, B))
    if got.shape != one.shape or not np.array_equal(got, one):
        ctx.violation(MODULE, "numeric:long_uncached_call_between_chunks", {"taps": taps, "B": B, "action": "numeric"},
                      {"shape": [list(got.shape), list(one.shape)]})


def run(ctx):
    tlc.apalache_inductive(ctx, "P (tail cache in windows)")
    ctx.notes["rule"] = ("behaviours = (taps, B, real/complex) x sequences of cached / stateless channelize calls and "
                         "cache resets on two interleaved filterbank objects generated by TLC with exact integer "
                         "spectra; numeric leg = all/sampled compositions of 6 windows for realistic (taps, B, window); "
                         "distinct = distinct (configuration, call sequence) or (configuration, composition)")
    ctx.assume("exact leg: integer window assigned to PolyphaseFilterbank.window, integer inputs, B in {2,4}; outputs "
               "compared times sqrt(B) at 1e-9")
    ctx.assume("numeric leg: harness-owned direct FIR+DFT (explicit DFT matrix) at 1e-9 relative; chunked vs "
               "one-shot compared bit for bit")
    ops, win = ctx.pick(3, 5), ctx.pick(4, 5)
    cfg = tlc.cfg_with("PFB_MC.cfg", {"MaxOps": str(ops), "MaxWin": str(win)}, ctx.outdir)
    res = tlc.run(MODULE, cfg, ctx.outdir, workers=8, coverage=True)
    ctx.add_tlc(res, "PFB_MC MaxOps=%d MaxWin=%d" % (ops, win), "M")
    ctx.tlc_violation(res, MODULE, "PFB_MC")
    for a in ("ChannelizeCached", "ChannelizeOneShot", "ResetCache"):
        if res.coverage.get(a, (0, 0))[1] == 0:
            raise RuntimeError("vacuity: action %s never taken" % a)
    gops = ctx.pick(2, 3)
    cfg = tlc.cfg_with("PFB_Gen.cfg", {"MaxOps": str(gops), "MaxWin": "4"}, ctx.outdir)
    res = tlc.run(MODULE, cfg, ctx.outdir, workers=1)
    ctx.add_tlc(res, "PFB_Gen MaxOps=%d" % gops, "R-generate")
    behs = list(res.emitted)
    depth, num = ctx.pick(6, 8), ctx.pick(400, 6000)
    cfg = tlc.cfg_with("PFB_Gen.cfg", {"MaxOps": str(depth), "MaxWin": "6"}, ctx.outdir)
    res = tlc.run(MODULE, cfg, ctx.outdir, workers=4, simulate=num // 4, depth=depth + 2, seed=ctx.seed)
    ctx.add_tlc(res, "PFB_Gen simulate depth=%d" % depth, "R-generate")
    behs += res.emitted
    if not behs:
        raise RuntimeError("no behaviours generated")
    for n, beh in enumerate(behs):
        steps = [s for s in beh["steps"] if s["act"]["name"] != "Done"]
        c = beh["cfg"]
        ctx.mark((c["taps"], c["B"], c["cplx"], tuple((s["act"]["name"], s["act"].get("o"), s["act"].get("w"),
                                                          s["act"].get("cache"), s["act"].get("from")) for s in steps)))
        if n < 2:
            ctx.sample({"leg": "R", "cfg": c, "calls": [s["act"] for s in steps],
                        "first_out": next((s["out"][:2] for s in steps if s["out"]), None)})
        d = ad.replay(beh)
        ctx.traces += 1
        ctx.steps += len(steps)
        if d is not None:
            act = steps[d.step]["act"]
            args = dict(c)
            args.update({"action": act["name"], "field": d.field.split("[")[0], "cache": act.get("cache"), "w": act.get("w"),
                         "complex": c["cplx"]})
            ctx.violation(MODULE, "replay:" + d.field.split("[")[0], args,
                          {"cfg": c, "calls": [s["act"] for s in steps[:d.step + 1]], "expected": d.expected,
                           "observed": d.observed, "step": d.step})
    numeric_leg(ctx)
    scale_leg(ctx)
