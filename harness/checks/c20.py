from . import c02


def run(ctx):
    c02.run_for(ctx, "C20", check_bytes=False)
