"""C20: block, length and sample accounting is exact and consistent across helpers.
Accounting.tla (closed forms over integers/rationals) + the recording step machine of Backend.tla."""
import os

from .. import tlc
from ..adapters import accounting as ad
from . import c02, c14


def run(ctx):
    ctx.assume("rational arithmetic from TLC (time per block, durations as (k + rn/rd) blocks); floats compared at 1e-12..1e-14 "
               "relative; sample rates 1024, 1e6, 2.5e6, 187.5e6 and x16 (= 3e9) by scaling")
    res = tlc.run("Accounting", "Accounting_MC.cfg", ctx.outdir, workers=8, coverage=True)
    ctx.add_tlc(res, "Accounting_MC", "M")
    ctx.tlc_violation(res, "Accounting", "Accounting_MC")
    if res.coverage.get("Compute", (0, 0))[1] == 0:
        raise RuntimeError("vacuity: Compute never taken")
    cfg = tlc.cfg_with("Accounting_Gen.cfg", {}, ctx.outdir)
    if ctx.quick():
        res = tlc.run("Accounting", cfg, ctx.outdir, workers=4, simulate=150, depth=5, seed=ctx.seed)
    else:
        res = tlc.run("Accounting", cfg, ctx.outdir, workers=1)
    ctx.add_tlc(res, "Accounting_Gen", "R-generate")
    if not res.emitted:
        raise RuntimeError("Accounting_Gen produced nothing")
    work = os.path.join(ctx.outdir, "acc")
    os.makedirs(work, exist_ok=True)
    seen = set()
    for n, out in enumerate(res.emitted):
        c = out["cfg"]
        key = tuple(sorted(c.items()))
        if key in seen:
            continue
        seen.add(key)
        scale = 16 if (c["rate"] == 187500000 and n % 2 == 0) else 1
        ctx.mark(key + (scale,))
        if len(ctx.samples) < 1:
            ctx.sample({"leg": "R", "expected": out})
        ctx.traces += 1
        try:
            ad.check(out, scale, work, False)
            ctx.steps += 14
            ad.check_fine(out, scale)
            ctx.steps += 3
            if c["B"] <= 16 or (c["blocks"] <= 2 and c["mult"] <= 2):
                ad.check_recording(out, scale, work)
                ctx.steps += 1
        except ad.Div as d:
            args = dict(c)
            args.update({"action": d.field, "scale": scale})
            ctx.violation("Accounting", "replay:" + d.field, args, {"expected": d.expected, "observed": d.observed, "spec": out})
    c02.run_for(ctx, "C20", num_quick=60, num_thorough=1500, check_bytes=False)
    # recordings onto existing RAW: the reported length / totals describe the clamped number of blocks (InputMode.tla)
    c14.run_for(ctx, "C20", num_quick=60, num_thorough=400)
    # real record() executions at realistic sizes validated as traces (request sizes, clock advance per request, block count)
    c02.trace_leg(ctx, "C20", with_repo_tests=not ctx.quick())
    ctx.notes["rule"] = ("configurations (rate, branches, taps, channels, antennas, pols, bits, block multiplier, blocks) from "
                         "Accounting.tla with exact expectations (12 durations each, 3 fine-channelisation cases, one recording "
                         "by duration) + Backend.tla recordings; distinct = distinct configurations")
