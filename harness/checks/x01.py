"""X01 (extension, not one of the listed properties): index arithmetic of setigen.normalize and level_utils
(Normalize.tla, Level.tla).  Divergences here are printed as EXTRA-FINDING lines and never as violations of C01-C20;
the evidence goes to /verif/evidence_extra/."""
import math

import numpy as np

import setigen as stg
from setigen import normalize
from setigen.voltage import antenna as v_antenna, backend as v_backend, level_utils, polyphase_filterbank as v_pfb, quantization as v_q

from .. import tlc


def run(ctx):
    ctx.notes["rule"] = "configurations of Normalize.tla / Level.tla; distinct = distinct configurations"
    findings = []
    for mod in ("Normalize", "Level"):
        res = tlc.run(mod, "%s_MC.cfg" % mod, ctx.outdir, workers=4, coverage=True)
        ctx.add_tlc(res, "%s_MC" % mod, "M")
        ctx.tlc_violation(res, mod, "%s_MC" % mod)
    res = tlc.run("Normalize", "Normalize_Gen.cfg", ctx.outdir, workers=1)
    ctx.add_tlc(res, "Normalize_Gen", "R-generate")
    for out in res.emitted:
        c = out["cfg"]
        T, F = c["T"], c["F"]
        data = np.array([[((t * F + f) * 7 + 3) % (T * F) + 1 for f in range(F)] for t in range(T)], dtype=float)
        ex = c["ex"] / 8.0
        ctx.traces += 1
        ctx.mark(tuple(sorted(c.items())))
        if len(ctx.samples) < 1:
            ctx.sample({"leg": "R", "expected": out})
        got = normalize.sliding_norm(data, cols=c["cols"], exclude=ex)
        want = np.empty_like(data)
        degenerate = False
        for i in range(F):
            ch = out["chans"][str(i)] if isinstance(out["chans"], dict) else out["chans"][i]
            mean = ch["sum"] / ch["kept"]
            var = ch["sumsq"] / ch["kept"] - mean * mean
            degenerate = degenerate or var <= 0          # a single kept sample: division by a zero deviation, not judged
            want[:, i] = (data[:, i] - mean) / math.sqrt(var) if var > 0 else 0.0
        want = np.nan_to_num(want)
        if not degenerate and (got.shape != want.shape or np.max(np.abs(np.nan_to_num(got) - want)) > 1e-9 * max(1.0, np.max(np.abs(want)))):
            findings.append(("sliding_norm", c))
        clip = normalize.blimpy_clip(data, exclude=ex)
        if len(clip) != out["clipKept"] or (len(clip) and clip.max() != sorted(data.flatten())[out["clipKept"] - 1]):
            findings.append(("blimpy_clip", c))
        mx = normalize.max_norm(data)
        if abs(mx.max() - 1.0) > 1e-15 or not np.allclose(mx * data.max(), data):
            findings.append(("max_norm", c))
    res = tlc.run("Level", "Level_Gen.cfg", ctx.outdir, workers=4, simulate=60, depth=5, seed=ctx.seed)
    ctx.add_tlc(res, "Level_Gen simulate", "R-generate")
    for out in res.emitted:
        c = out["cfg"]
        B, L = 8, c["L"]
        rate = 1024.0
        src = v_antenna.Antenna(sample_rate=rate, fch1=1.0e6, ascending=c["asc"], num_pols=c["pols"], seed=1)
        taps = 2
        be = v_backend.RawVoltageBackend(src, digitizer=v_q.RealQuantizer(), filterbank=v_pfb.PolyphaseFilterbank(num_taps=taps, num_branches=B),
                                         requantizer=v_q.ComplexQuantizer(), start_chan=0, num_chans=1,
                                         block_size=c["spb"] * 2 * c["pols"], blocks_per_file=1, num_subblocks=1)
        fine = abs(be.chan_bw) / L
        s = 1.0 if c["asc"] else -1.0
        f = 1.0e6 + s * c["g"] * fine / 8.0
        ctx.traces += 1
        ctx.mark(tuple(sorted(c.items())))
        lf = level_utils.get_leakage_factor(f, be, L)
        want = 1.0 / np.sinc(out["folded8"] / 8.0)
        if abs(lf - want) > 1e-6 * want:
            findings.append(("get_leakage_factor", {"g_eighths_of_a_fine_bin": c["g"], "asc": c["asc"], "expected": want, "observed": float(lf),
                                                   "as_built_model": 1.0 / np.sinc(out["asbuilt8"] / 8.0)}))
        if out["tchans"] > 0:
            lev = level_utils.get_level(10.0, be, L, num_blocks=c["blocks"], length_mode="num_blocks")
            want = 1.0 / math.sqrt(B * L / 4.0) * math.sqrt(10.0 * math.sqrt(2.0 / out["chidf"]) / math.sqrt(out["tchans"]))
            if abs(lev - want) > 1e-12 * want:
                findings.append(("get_level", c))
    seen = set()
    for what, c in findings:
        if what not in seen:
            seen.add(what)
            print("EXTRA-FINDING (not a listed property): %s diverges from the extension specification, e.g. %s" % (what, c))
    ctx.notes["extra_findings"] = sorted(seen)
    ctx.notes["extra_finding_count"] = len(findings)
