"""C15: array antennas see the shared background delayed by their configured delays (Stream.tla)."""
from . import c10


def run(ctx):
    c10.run_for(ctx, "C15")
