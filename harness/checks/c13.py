"""C13: the constant-signal helper injects the same signal as general injection (ConstSignal.tla)."""
from .. import tlc
from ..adapters import constsignal as ad

MODULE = "ConstSignal"


def run(ctx):
    ctx.notes["rule"] = ("configurations (frame size, orientation, start position incl. outside / on the edge / between "
                         "channels, drift -4..+4 channels per step incl. 0, width 0.04..10 channels, 5 profile types, "
                         "smearing on/off) from ConstSignal.tla on 3 geometries; distinct = distinct (geometry, configuration)")
    ctx.assume("the general signal is computed by the real add_signal on a twin frame (its correctness is C01's); "
               "box-profile pixels exactly on the profile edge are not judged; tolerance 1e-9 + 512 ulp(f)/min(width, df)")
    sets = {"FSet": "{7}", "TSet": "{3}"} if ctx.quick() else {}
    cfg = tlc.cfg_with("ConstSignal_MC.cfg", sets, ctx.outdir)
    res = tlc.run(MODULE, cfg, ctx.outdir, workers=8, coverage=True)
    ctx.add_tlc(res, "ConstSignal_MC", "M")
    ctx.tlc_violation(res, MODULE, "ConstSignal_MC")
    if res.coverage.get("Compute", (0, 0))[1] == 0:
        raise RuntimeError("vacuity: Compute never taken")
    cfg = tlc.cfg_with("ConstSignal_Gen.cfg", {}, ctx.outdir)
    num = ctx.pick(900, 30000)
    res = tlc.run(MODULE, cfg, ctx.outdir, workers=4, simulate=num // 4, depth=5, seed=ctx.seed)
    ctx.add_tlc(res, "ConstSignal_Gen simulate", "R-generate")
    if not res.emitted:
        raise RuntimeError("ConstSignal_Gen produced nothing")
    # exhaustively: smeared drifts of 2.5 and 4 channels per step (either sign) through the middle / top / bottom of the band
    res2 = tlc.run(MODULE, tlc.cfg_with("ConstSignal_Gen.cfg", {"Focus": '"fast"'}, ctx.outdir), ctx.outdir, workers=1)
    ctx.add_tlc(res2, "ConstSignal_Gen Focus=fast (exhaustive)", "R-generate")
    if not res2.emitted:
        raise RuntimeError("ConstSignal_Gen Focus=fast produced nothing")
    res.emitted.extend(res2.emitted)
    gl = ["dyadic", "bl_hires", "coarse", "odd"]
    seen = set()
    for n, out in enumerate(res.emitted):
        c = out["cfg"]
        gname = gl[n % 4]
        key = (gname,) + tuple(sorted(c.items()))
        if key in seen:
            continue
        seen.add(key)
        ctx.mark(key)
        ctx.traces += 1
        ctx.steps += 3
        if len(ctx.samples) < 2:
            ctx.sample({"leg": "R", "geometry": gname, "expected": out})
        try:
            ad.check(out, gname)
        except ad.Div as d:
            args = dict(c)
            args.update({"geometry": gname, "action": d.field, "width_channels": c["w"] / 24.0, "drift_channels": c["d"] / 24.0,
                         "substeps": out["n"]})
            ctx.violation(MODULE, "replay:" + d.field, args, {"spec": out, "geometry": gname, "expected": d.expected, "observed": d.observed})
