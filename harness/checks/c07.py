"""C07: voltage frequency registration: the written header locates every tone (Registration.tla)."""
import hashlib
import os

from .. import tlc
from ..adapters import registration as ad

MODULE = "Registration"


def inst_for(c, seed):
    h = int(hashlib.sha1(("%s|%d" % (sorted(c.items()), seed)).encode()).hexdigest(), 16)
    return {"rate": [1024.0 * 64, 3e9, 187.5e6][h % 3], "fch1": [0.0, 6e9, 1.4204e9][(h // 3) % 3],
            "pols": 1 + (h // 9) % 2, "directio": bool((h // 18) % 2), "seed": 3 + h % 1000,
            "align": (h // 36) % 2 == 0, "via_data": (h // 72) % 3 == 0}


def run(ctx):
    ctx.notes["rule"] = ("configurations (branches 8/16, fine FFT length 8/16, orientation, first recorded channel, channel count, "
                         "tone on every half fine bin of the recorded band except the DC channel / channel centres / edges, "
                         "spectra count, integration factor) from Registration.tla; each is a real recording (sample rate, "
                         "fch1, pols, DIRECTIO, header length aligned to 512 bytes or not, re-recording through from_data drawn per configuration; chirps also over two consecutive recordings; distinct = distinct configurations")
    ctx.assume("peak finding by a harness-owned shifted FFT (numeric projection outside TLC); tone 26 dB above noise; "
               "fch1 round trip compared at 1e-9*|fch1| + 1e-6*|chan_bw| (decimal OBSFREQ card)")
    res = tlc.run(MODULE, "Registration_MC.cfg", ctx.outdir, workers=8, coverage=True)
    ctx.add_tlc(res, "Registration_MC", "M")
    ctx.tlc_violation(res, MODULE, "Registration_MC")
    if res.coverage.get("Compute", (0, 0))[1] == 0:
        raise RuntimeError("vacuity: Compute never taken")
    cfg = tlc.cfg_with("Registration_Gen.cfg", {}, ctx.outdir)
    num = ctx.pick(240, 6000)
    res = tlc.run(MODULE, cfg, ctx.outdir, workers=4, simulate=num // 4, depth=5, seed=ctx.seed)
    ctx.add_tlc(res, "Registration_Gen simulate", "R-generate")
    if not res.emitted:
        raise RuntimeError("Registration_Gen produced nothing")
    work = os.path.join(ctx.outdir, "raw07")
    os.makedirs(work, exist_ok=True)
    seen = set()
    for n, out in enumerate(res.emitted):
        c = out["cfg"]
        key = tuple(sorted(c.items()))
        if key in seen:
            continue
        seen.add(key)
        inst = inst_for(c, ctx.seed)
        ctx.mark(key)
        ctx.traces += 1
        ctx.steps += 8
        if len(ctx.samples) < 2:
            ctx.sample({"leg": "R", "expected": out, "instantiation": inst})
        try:
            ad.check(out, inst, work)
            if n % 6 == 0 and abs(c["g"] % (2 * c["L"]) - c["L"]) > 6:     # room to drift inside the coarse channel
                for dps in (0.5, -0.5):
                    off = c["g"] % (2 * c["L"])
                    off = off if off < c["L"] else off - 2 * c["L"]            # offset from the channel centre, in quanta
                    end = off + 2 * dps * 8
                    if abs(end) < c["L"] - 2 and abs(off) < c["L"] - 2:
                        ad.check_chirp(c, inst, work, dps * (1 if c["asc"] else -1) * 1.0)
                        ctx.steps += 8
                    # two consecutive recordings of 5 segments each by one backend: the chirp continues
                    end2 = off + 2 * dps * 11.5
                    if abs(end2) < c["L"] - 2 and abs(off) < c["L"] - 2:
                        ad.check_chirp(c, inst, work, dps * (1 if c["asc"] else -1) * 1.0, nseg=5, second=True)
                        ctx.steps += 10
        except ad.Div as d:
            args = dict(c)
            args.update(inst)
            args.update({"action": d.field})
            ctx.violation(MODULE, "replay:" + d.field, args, {"spec": out, "instantiation": inst, "expected": d.expected,
                                                            "observed": d.observed})
    ctx.notes["legs"] = dict(ad.COUNTS)
    if not ctx.quick() or ctx.traces >= 100:
        for k, v in ad.COUNTS.items():
            if v == 0:
                raise RuntimeError("vacuity: leg %s never exercised" % k)
