"""Run-time recorder for the voltage pipeline: wraps public / pipeline methods at class level (no source change) and
turns every RawVoltageBackend.record() call into one trace of events for BackendTrace.tla.

Events are logged at the call's return (also on the error path), only while a record() call is active."""
import functools
import json

from setigen.voltage import antenna as v_antenna
from setigen.voltage import backend as v_backend
from setigen.voltage import polyphase_filterbank as v_pfb
from setigen.voltage import quantization as v_q


class Recorder(object):
    def __init__(self):
        self.traces = []
        self.cur = None
        self.depth = 0
        self._orig = []

    def _patch(self, cls, name, make):
        orig = getattr(cls, name)
        setattr(cls, name, make(orig))
        self._orig.append((cls, name, orig))

    def install(self):
        rec = self

        def wrap_record(orig):
            @functools.wraps(orig)
            def record(be, *a, **kw):
                outer = rec.depth
                rec.depth += 1
                if outer == 0:
                    rec.cur = [{"e": "Begin", "taps": int(be.num_taps), "B": int(be.num_branches), "T": int(be.samples_per_block),
                                "S": int(be.num_subblocks), "bpf": int(be.blocks_per_file), "pols": int(be.num_pols),
                                "nant": int(be.num_antennas), "input": be.input_file_stem is not None, "blocks": -1}]
                try:
                    return orig(be, *a, **kw)
                finally:
                    rec.depth -= 1
                    if outer == 0 and rec.cur is not None:
                        rec.cur[0]["blocks"] = int(getattr(be, "num_blocks", -1) or 0)
                        rec.cur[0]["nq"] = len(rec.cur[0].pop("_qids", {}))
                        rec.cur.append({"e": "End"})
                        rec.traces.append(rec.cur)
                        rec.cur = None
            return record

        def wrap_header(orig):
            @functools.wraps(orig)
            def _make_header(be, f, header_dict):
                pkt = header_dict.get("PKTIDX")
                try:
                    return orig(be, f, header_dict)
                finally:
                    if rec.cur is not None:
                        rec.cur.append({"e": "Header", "pkt": int(pkt) if pkt is not None else -1,
                                        "pkt0": int(header_dict.get("PKTSTART", 0))})
            return _make_header

        def wrap_block(orig):
            @functools.wraps(orig)
            def collect_data_block(be, *a, **kw):
                try:
                    return orig(be, *a, **kw)
                finally:
                    if rec.cur is not None:
                        rec.cur.append({"e": "BlockEnd", "nsub": int(be.num_subblocks)})
            return collect_data_block

        def wrap_samples(orig):
            @functools.wraps(orig)
            def get_samples(src, num_samples):
                start = bool(src.start_obs)
                t0 = src.t_start
                try:
                    return orig(src, num_samples)
                finally:
                    if rec.cur is not None and rec.depth == 1:
                        streams = src.streams if hasattr(src, "streams") else [s for a in src.antennas for s in a.streams]
                        adv = [int(round((s.t_start - t0) * src.sample_rate)) for s in streams]
                        rec.cur.append({"e": "Request", "n": int(num_samples), "start": start,
                                        "adv": int(round((src.t_start - t0) * src.sample_rate)),
                                        "advmin": min(adv), "advmax": max(adv)})
            return get_samples

        def wrap_channelize(orig):
            @functools.wraps(orig)
            def channelize(pf, x, cache=True):
                clen = 0 if pf.cache is None else int(len(pf.cache))
                out = None
                try:
                    out = orig(pf, x, cache=cache)
                    return out
                finally:
                    if rec.cur is not None:
                        rec.cur.append({"e": "Chan" if cache else "ChanNoCache", "inlen": int(len(x)), "cache": clen,
                                        "out": -1 if out is None else int(out.shape[0])})
            return channelize
        def wrap_quantize(orig):
            @functools.wraps(orig)
            def quantize(q, voltages, custom_std=None):
                before = q.stats_cache
                try:
                    return orig(q, voltages, custom_std=custom_std)
                finally:
                    if rec.cur is not None:
                        ids = rec.cur[0].setdefault("_qids", {})
                        qid = ids.setdefault(id(q), len(ids) + 1)
                        rec.cur.append({"e": "Quant", "q": qid, "period": int(q.stats_calc_period), "refreshed": q.stats_cache is not before,
                                        "idx": int(q.stats_calc_indices), "custom": custom_std is not None})
            return quantize

        def wrap_qreset(orig):
            @functools.wraps(orig)
            def _reset_cache(q):
                try:
                    return orig(q)
                finally:
                    if rec.cur is not None:
                        ids = rec.cur[0].setdefault("_qids", {})
                        qid = ids.setdefault(id(q), len(ids) + 1)
                        rec.cur.append({"e": "QReset", "q": qid})
            return _reset_cache
        self._patch(v_q.RealQuantizer, "quantize", wrap_quantize)
        self._patch(v_q.RealQuantizer, "_reset_cache", wrap_qreset)
        self._patch(v_backend.RawVoltageBackend, "record", wrap_record)
        self._patch(v_backend.RawVoltageBackend, "_make_header", wrap_header)
        self._patch(v_backend.RawVoltageBackend, "collect_data_block", wrap_block)
        self._patch(v_antenna.Antenna, "get_samples", wrap_samples)
        self._patch(v_antenna.MultiAntennaArray, "get_samples", wrap_samples)
        self._patch(v_pfb.PolyphaseFilterbank, "channelize", wrap_channelize)
        return self

    def uninstall(self):
        for cls, name, orig in reversed(self._orig):
            setattr(cls, name, orig)
        self._orig = []

    def dump(self, path):
        with open(path, "w") as f:
            json.dump(self.traces, f)
