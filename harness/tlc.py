"""Thin driver around TLC: run a module with a cfg, parse statistics, coverage,
violations and the JSON lines that Gen/Trace configurations print with PrintT(ToJson(..)).

Every run happens in /verif/spec (so EXTENDS/INSTANCE resolve), with its own
metadir under the caller's scratch directory."""
import json
import os
import re
import subprocess
import time

SPEC_DIR = os.path.join(os.path.dirname(os.path.dirname(os.path.abspath(__file__))), "spec")
TLA_CP = "/opt/veriftools/tla/tla2tools.jar:/opt/veriftools/tla/CommunityModules-deps.jar"

_counter = [0]


class TLCError(RuntimeError):
    """TLC itself failed (parse error, evaluation error, timeout): machinery failure."""


class TLCResult(object):
    def __init__(self):
        self.stdout = ""
        self.generated = 0       # "states generated" (= transitions taken + initial states)
        self.distinct = 0
        self.depth = 0
        self.violations = []     # [(kind, name)]
        self.emitted = []        # decoded JSON values printed by the spec
        self.coverage = {}       # action name -> (distinct, total)
        self.wall = 0.0
        self.errors = []         # raw "Error:" lines
        self.cmd = ""
        self.trace_text = ""

    @property
    def ok(self):
        return not self.violations and not self.errors


def cfg_with(base_cfg, constants=None, outdir=None, extra_lines=None, drop=None):
    """Copy spec/<base_cfg> into outdir with CONSTANT values overridden.
    `constants` maps name -> literal text.  Returns the new path."""
    src = os.path.join(SPEC_DIR, base_cfg)
    text = open(src).read()
    constants = dict(constants or {})
    out_lines = []
    for line in text.splitlines():
        m = re.match(r"^\s*([A-Za-z_][A-Za-z0-9_]*)\s*(=|<-)\s*(.+?)\s*$", line)
        if m and m.group(1) in constants:
            out_lines.append("  %s %s %s" % (m.group(1), m.group(2), constants.pop(m.group(1))))
            continue
        if drop and any(re.match(d, line.strip()) for d in drop):
            continue
        out_lines.append(line)
    if constants:
        raise TLCError("cfg_with: constants %s not present in %s" % (sorted(constants), base_cfg))
    if extra_lines:
        out_lines.extend(extra_lines)
    _counter[0] += 1
    dst = os.path.join(outdir, "%s.%d.cfg" % (os.path.splitext(os.path.basename(base_cfg))[0], _counter[0]))
    with open(dst, "w") as f:
        f.write("\n".join(out_lines) + "\n")
    return dst


_RE_STATES = re.compile(r"^(\d+) states generated, (\d+) distinct states found")
_RE_DEPTH = re.compile(r"^The depth of the complete state graph search is (\d+)")
_RE_INV = re.compile(r"^Error: Invariant (\S+) is violated")
_RE_PROP = re.compile(r"^Error: Action property (\S+) is violated")
_RE_TPROP = re.compile(r"^Error: Temporal properties were violated")
_RE_COV = re.compile(r"^<(\w+) line \d+, col \d+ to line \d+, col \d+ of module (\w+)(?: \([\d ]+\))?>: (\d+):(\d+)")
_RE_SIMSTATES = re.compile(r"^The number of states generated: (\d+)")


def run(module, cfg, outdir, workers=8, simulate=None, depth=None, seed=None, env=None,
        timeout=900, coverage=False, deque=False, extra=None, heap=None, allow_violation=False):
    """Run TLC.  `cfg` is an absolute path or a file name inside spec/.
    simulate: None for exhaustive BFS, or an int N for `-simulate num=N`."""
    _counter[0] += 1
    meta = os.path.join(outdir, "meta_%d_%d" % (os.getpid(), _counter[0]))
    cfg_path = cfg if os.path.isabs(cfg) else os.path.join(SPEC_DIR, cfg)
    java = ["java", "-XX:+UseSerialGC", "-Xms512m"]
    if heap:
        java.append("-Xmx%s" % heap)
    if deque:
        java.append("-Dtlc2.tool.queue.IStateQueue=StateDeque")
    cmd = java + ["-cp", TLA_CP, "tlc2.TLC", "-workers", str(workers), "-metadir", meta,
                  "-noGenerateSpecTE", "-config", cfg_path]
    if simulate is not None:
        cmd += ["-simulate", "num=%d" % simulate]
    if depth is not None:
        cmd += ["-depth", str(depth)]
    if seed is not None:
        cmd += ["-seed", str(seed)]
    if coverage:
        cmd += ["-coverage", "1"]
    if extra:
        cmd += list(extra)
    cmd.append(module if module.endswith(".tla") else module + ".tla")
    e = dict(os.environ)
    e.pop("JAVA_TOOL_OPTIONS", None)
    if env:
        e.update(env)
    res = TLCResult()
    res.cmd = " ".join(cmd)
    t0 = time.time()
    try:
        p = subprocess.run(cmd, cwd=SPEC_DIR, env=e, stdout=subprocess.PIPE, stderr=subprocess.STDOUT,
                           timeout=timeout, universal_newlines=True)
    except subprocess.TimeoutExpired:
        subprocess.call(["pkill", "-f", meta])
        raise TLCError("TLC timed out after %ss: %s" % (timeout, res.cmd))
    res.wall = time.time() - t0
    res.stdout = p.stdout
    in_trace = False
    trace_lines = []
    for line in p.stdout.splitlines():
        if line.startswith('"[') or line.startswith('"{'):
            try:
                res.emitted.append(json.loads(json.loads(line)))
            except ValueError:
                raise TLCError("unparseable emitted line: %s" % line[:200])
            continue
        m = _RE_STATES.match(line)
        if m:
            res.generated, res.distinct = int(m.group(1)), int(m.group(2))
            continue
        m = _RE_SIMSTATES.match(line)
        if m:
            res.generated = res.distinct = int(m.group(1))
            continue
        m = _RE_DEPTH.match(line)
        if m:
            res.depth = int(m.group(1))
            continue
        m = _RE_INV.match(line)
        if m:
            res.violations.append(("invariant", m.group(1).rstrip(".")))
            in_trace = True
            continue
        m = _RE_PROP.match(line)
        if m:
            res.violations.append(("action_property", m.group(1).rstrip(".")))
            in_trace = True
            continue
        if _RE_TPROP.match(line):
            res.violations.append(("temporal", "temporal"))
            in_trace = True
            continue
        if line.startswith("Error: Deadlock reached"):
            res.violations.append(("deadlock", "deadlock"))
            in_trace = True
            continue
        if line.startswith("Error:"):
            if "The behavior up to this point is" in line or "The following behavior constitutes" in line:
                continue
            res.errors.append(line)
            in_trace = True
            continue
        m = _RE_COV.match(line)
        if m:
            name = m.group(1)
            if m.group(2) == os.path.splitext(os.path.basename(module))[0] or True:
                d, t = int(m.group(3)), int(m.group(4))
                old = res.coverage.get(name, (0, 0))
                res.coverage[name] = (max(old[0], d), max(old[1], t))
            continue
        if in_trace and len(trace_lines) < 400:
            trace_lines.append(line)
    res.trace_text = "\n".join(trace_lines)
    if res.errors or (p.returncode != 0 and not res.violations):
        tail = "\n".join(p.stdout.splitlines()[-40:])
        raise TLCError("TLC failed (rc=%s) for %s\n%s" % (p.returncode, res.cmd, tail))
    if res.violations and not allow_violation:
        pass  # the caller decides; result carries the violations
    # cleanup metadir (can be large)
    subprocess.call(["rm", "-rf", meta])
    return res


def sany(module):
    cmd = ["java", "-cp", TLA_CP, "tla2sany.SANY", module]
    p = subprocess.run(cmd, cwd=SPEC_DIR, stdout=subprocess.PIPE, stderr=subprocess.STDOUT,
                       universal_newlines=True, timeout=120)
    bad = p.returncode != 0 or "Could not" in p.stdout or "*** Errors" in p.stdout or "Fatal" in p.stdout \
        or "Exception" in p.stdout
    return (not bad), p.stdout


def apalache_lemmas(outdir, timeout=300):
    """Discharge spec/ArithLemmas.tla with Apalache over unbounded integers.  Returns (status, wall seconds) with status
    'proved' | 'counterexample' | 'not discharged' (solver stalled or tool missing: reported, never a failure)."""
    import shutil
    exe = shutil.which("apalache-mc")
    if exe is None:
        return "not discharged", 0.0
    t0 = time.time()
    try:
        p = subprocess.run([exe, "check", "--init=Init", "--next=Next", "--inv=Lemmas", "--length=0",
                            "--out-dir=" + os.path.join(outdir, "apalache"), "ArithLemmas.tla"], cwd=SPEC_DIR,
                           stdout=subprocess.PIPE, stderr=subprocess.STDOUT, universal_newlines=True, timeout=timeout)
    except subprocess.TimeoutExpired:
        return "not discharged", time.time() - t0
    out = p.stdout
    if "The outcome is: NoError" in out:
        return "proved", time.time() - t0
    if "The outcome is: Error" in out:
        return "counterexample", time.time() - t0
    return "not discharged", time.time() - t0


def apalache_check(module, init, inv, length, outdir, timeout=600):
    """apalache-mc check --init=<init> --next=Next --inv=<inv> --length=<length> on spec/<module>.tla.
    Returns (status, wall seconds) with status 'proved' | 'counterexample' | 'not discharged'."""
    import shutil
    exe = shutil.which("apalache-mc")
    if exe is None:
        return "not discharged", 0.0
    t0 = time.time()
    try:
        p = subprocess.run([exe, "check", "--init=" + init, "--next=Next", "--inv=" + inv, "--length=%d" % length,
                            "--out-dir=" + os.path.join(outdir, "apalache"), module + ".tla"], cwd=SPEC_DIR,
                           stdout=subprocess.PIPE, stderr=subprocess.STDOUT, universal_newlines=True, timeout=timeout)
    except subprocess.TimeoutExpired:
        return "not discharged", time.time() - t0
    if "The outcome is: NoError" in p.stdout:
        return "proved", time.time() - t0
    if "The outcome is: Error" in p.stdout:
        return "counterexample", time.time() - t0
    return "not discharged", time.time() - t0


def apalache_inductive(ctx, machines):
    """Thorough tier: base and step of the inductive invariant of spec/Inductive.tla (unbounded counters of the bounded
    models).  A counterexample is a violation of the specification's own claim; a stalled solver is only reported."""
    if ctx.quick():
        return
    base, w0 = apalache_check("Inductive", "Init", "IndInv", 0, ctx.outdir)
    step, w1 = apalache_check("Inductive", "IndInit", "IndInv", 1, ctx.outdir)
    ctx.notes["apalache_Inductive"] = {"base (Init => IndInv)": base, "step (IndInv /\\ Next => IndInv')": step,
                                       "wall_s": round(w0 + w1, 1), "machines_relevant_here": machines}
    if "counterexample" in (base, step):
        ctx.violation("Inductive", "apalache:counterexample", {"action": "IndInv"},
                      {"see": "apalache-mc check --init=IndInit --next=Next --inv=IndInv --length=1 Inductive.tla", "base": base, "step": step})
