"""pytest plugin (`-p verif_recorder`, PYTHONPATH=/verif/harness:...): runs the repository's own tests under the
recorder and writes the traces of every record() call to $VERIF_TRACE_OUT.  Never alters test outcomes."""
import os
import sys

sys.path.insert(0, os.path.dirname(os.path.dirname(os.path.abspath(__file__))))
_rec = None


def pytest_configure(config):
    global _rec
    from harness.record import Recorder
    _rec = Recorder().install()


def pytest_unconfigure(config):
    if _rec is not None:
        _rec.uninstall()
        out = os.environ.get("VERIF_TRACE_OUT")
        if out:
            _rec.dump(out)
