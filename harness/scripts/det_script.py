"""Stand-alone seeded workload whose outputs must be bit-identical between interpreter processes (any PYTHONHASHSEED):
a synthetic recording with the header template, an injection onto existing RAW whose input header has custom cards,
and a seeded frame script.  Prints one sha256 per output.  Usage: det_script.py <repo> <scratch-dir>"""
import collections
import hashlib
import os
import sys
import warnings

sys.path.insert(0, os.path.dirname(os.path.dirname(os.path.dirname(os.path.abspath(__file__)))))
sys.path.insert(0, sys.argv[1])
os.environ["TQDM_DISABLE"] = "1"
warnings.filterwarnings("ignore")
import logging
logging.disable(logging.WARNING)
import numpy as np
import setigen as stg
from setigen.voltage import antenna as v_antenna, backend as v_backend, polyphase_filterbank as v_pfb, quantization as v_q
from harness import guppi

work = sys.argv[2]
os.makedirs(work, exist_ok=True)


def sha(paths):
    h = hashlib.sha256()
    for p in sorted(paths):
        h.update(open(p, "rb").read())
    return h.hexdigest()


def files(prefix):
    return [os.path.join(work, f) for f in os.listdir(work) if f.startswith(prefix)]


# 1. synthetic recording, template on, user cards
ant = v_antenna.Antenna(sample_rate=1024.0, fch1=0, ascending=True, num_pols=2, seed=11)
for s in ant.streams:
    s.add_noise(0, 1)
    s.add_constant_signal(f_start=200.0, drift_rate=0.0, level=0.5)
be = v_backend.RawVoltageBackend(ant, digitizer=v_q.RealQuantizer(target_fwhm=32, num_bits=8),
                                 filterbank=v_pfb.PolyphaseFilterbank(num_taps=2, num_branches=8),
                                 requantizer=v_q.ComplexQuantizer(target_fwhm=32, num_bits=8), start_chan=1, num_chans=2,
                                 block_size=2 * 8 * 4, blocks_per_file=2, num_subblocks=2)
be.record(os.path.join(work, "syn"), num_blocks=3, length_mode="num_blocks", header_dict={"ZCARD": 1, "ACARD": "x", "MCARD": 2.5}, verbose=False)
print("synthetic", sha(files("syn.")))

# 2. injection onto existing RAW with custom input cards, template off and on
hdr = collections.OrderedDict([("BACKEND", "GUPPI"), ("TELESCOP", "GBT"), ("OBSERVER", "me"), ("SRC_NAME", "X1"), ("NBITS", 8), ("NPOL", 1),
                               ("OBSNCHAN", 2), ("BLOCSIZE", 2 * 8 * 2), ("TBIN", 8 / 1024.0), ("CHAN_BW", 0.000128), ("OBSBW", 0.000256),
                               ("OBSFREQ", 0.000192), ("SCANLEN", 1.0), ("PKTIDX", 0)])
for k in range(9):
    hdr["CUST%02dX" % k] = k * 3
rng = np.random.default_rng(4)
blocks = [(collections.OrderedDict(hdr), rng.integers(-90, 90, size=32, dtype=np.int8).tobytes()) for _ in range(2)]
guppi.write_file(os.path.join(work, "inp.0000.raw"), blocks)
for tpl in (False, True):
    ant = v_antenna.Antenna(sample_rate=1024.0, fch1=0, ascending=True, num_pols=1, seed=12)
    ant.x.add_constant_signal(f_start=200.0, drift_rate=0.0, level=0.3)
    fb = v_pfb.PolyphaseFilterbank(num_taps=2, num_branches=8)
    fb.estimate_channelized_stds(factor=200, seed=5)
    be = v_backend.RawVoltageBackend.from_data(os.path.join(work, "inp"), ant, digitizer=v_q.RealQuantizer(target_fwhm=32, num_bits=8),
                                               filterbank=fb, start_chan=1, num_subblocks=2)
    be.record(os.path.join(work, "inj%d" % tpl), length_mode="num_blocks", header_dict={}, load_template=tpl, digitize=False, verbose=False)
    print("injection template=%s" % tpl, sha(files("inj%d." % tpl)))

# 3. seeded frame
fr = stg.Frame(fchans=32, tchans=6, df=2.0, dt=1.0, fch1=6e9, ascending=False, t_start=0.0, seed=21)
fr.add_noise(10.0)
fr.add_noise_from_obs()
fr.add_signal(stg.simple_rfi_path(f_start=fr.get_frequency(10), drift_rate=0.1, spread=3.0, seed=22),
              stg.periodic_gaussian_t_profile(pulse_width=2.0, period=3.0, seed=23), stg.gaussian_f_profile(width=4.0),
              stg.constant_bp_profile(level=1))
fr.add_metadata({"zeta": 1, "alpha": 2})
fr.save_fil(os.path.join(work, "fr.fil"))
print("frame", hashlib.sha256(fr.data.tobytes()).hexdigest(), sha([os.path.join(work, "fr.fil")]))
