"""pytest plugin (`-p verif_stream_recorder`, PYTHONPATH=/verif/harness:...): runs the repository's own tests under
harness/record_stream.py, one trace per test, and writes the traces to $VERIF_STREAM_TRACE_OUT.  Never alters outcomes."""
import json
import os
import sys

import pytest

sys.path.insert(0, os.path.dirname(os.path.dirname(os.path.abspath(__file__))))
_traces = []


@pytest.hookimpl(hookwrapper=True)
def pytest_runtest_protocol(item, nextitem):
    from harness import record_stream as rs
    rec = rs.Recorder()
    with rs.recording(rec):
        yield
    if rec.events:
        t = rec.trace()
        t["h"]["test"] = item.nodeid
        _traces.append(t)


def pytest_unconfigure(config):
    out = os.environ.get("VERIF_STREAM_TRACE_OUT")
    if out:
        with open(out, "w") as f:
            json.dump(_traces, f)
