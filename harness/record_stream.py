"""Recorder for voltage-source executions (trace validation by spec/StreamTrace.tla): every outermost call of
get_samples / set_time / add_time / reset_start / update_noise on DataStream, Antenna and MultiAntennaArray objects,
logged at its return (also when it raises) with the clocks (in samples), start flags and carried-background lengths of
the whole object family before and after.  Installed from outside at class level (also under the repository's own
voltage tests through harness/verif_stream_recorder.py); wrappers forward their arguments unchanged."""
import contextlib

from setigen.voltage import antenna as _ant
from setigen.voltage import data_stream as _ds


class Recorder(object):
    def __init__(self):
        self.events = []
        self.objs = []
        self.oid = {}
        self.depth = 0
        self.offgrid = False

    def id_of(self, o):
        k = id(o)
        if k not in self.oid:
            self.objs.append(o)
            self.oid[k] = len(self.objs)
        return self.oid[k]

    def tick(self, o):
        x = float(o.t_start) * float(o.sample_rate)
        r = round(x)
        if abs(x - r) > 1e-6 * max(1.0, abs(x)) or abs(r) > 2 ** 30:
            self.offgrid = True
        return int(r)

    def family(self, o):
        """[(role, object)]: the object itself first, then everything it drives."""
        if isinstance(o, _ant.MultiAntennaArray):
            fam = [("self", o)] + [("bg", s) for s in o.bg_streams]
            for a in o.antennas:
                fam.append(("ant", a))
                fam += [("own", s) for s in a.streams]
            return fam
        if isinstance(o, _ant.Antenna):
            return [("self", o)] + [("own", s) for s in o.streams]
        return [("self", o)]

    def snap(self, fam):
        return [[self.tick(o), bool(o.start_obs)] for _, o in fam]

    @staticmethod
    def caches(o):
        if not isinstance(o, _ant.MultiAntennaArray):
            return []
        out = []
        for a in o.antennas:
            c = a.bg_cache[0] if a.bg_cache else None
            out.append(-1 if c is None else int(len(c)))
        return out

    def call(self, name, o, args, fn):
        if self.depth > 0:
            return fn()
        fam = self.family(o)
        ev = {"e": name, "kind": "array" if isinstance(o, _ant.MultiAntennaArray) else ("antenna" if isinstance(o, _ant.Antenna) else "stream"),
              "ids": [self.id_of(x) for _, x in fam], "roles": [r for r, _ in fam], "a": args, "before": self.snap(fam),
              "clen_b": self.caches(o), "D": int(getattr(o, "max_delay", 0) or 0),
              "delays": [int(a.delay or 0) for a in o.antennas] if isinstance(o, _ant.MultiAntennaArray) else []}
        self.depth += 1
        exc = None
        try:
            ret = fn()
        except Exception as e:
            exc = e
        finally:
            self.depth -= 1
        ev["st"] = "ok" if exc is None else type(exc).__name__
        ev["after"] = self.snap(fam)
        ev["clen_a"] = self.caches(o)
        self.events.append(ev)
        if exc is not None:
            raise exc
        return ret

    def trace(self):
        return {"h": {"n": max(1, len(self.objs)), "offgrid": self.offgrid}, "ev": self.events}


def _int_or_none(n):
    import numpy as np
    if isinstance(n, (bool, np.bool_)):
        return None
    if isinstance(n, (int, np.integer)):
        return int(n)
    return None


@contextlib.contextmanager
def recording(rec):
    saved = []

    def patch(cls, name, make):
        orig = cls.__dict__[name]
        saved.append((cls, name, orig))
        setattr(cls, name, make(orig))

    def mk_get(orig):
        def get_samples(self, *a, **kw):
            n = a[0] if a else kw.get("num_samples")
            ni = _int_or_none(n)
            return rec.call("Get", self, {"n": ni if ni is not None else -999, "valid": ni is not None}, lambda: orig(self, *a, **kw))
        return get_samples

    def mk_set(orig):
        def set_time(self, *a, **kw):
            t = a[0] if a else kw.get("t")
            try:
                tk = float(t) * float(self.sample_rate)
                if abs(tk - round(tk)) > 1e-6 * max(1.0, abs(tk)):
                    rec.offgrid = True
                tk = int(round(tk))
            except Exception:
                tk, rec.offgrid = 0, True
            return rec.call("SetTime", self, {"t": tk}, lambda: orig(self, *a, **kw))
        return set_time

    def mk_add(orig):
        def add_time(self, *a, **kw):
            t = a[0] if a else kw.get("t")
            try:
                tk = float(t) * float(self.sample_rate)
                if abs(tk - round(tk)) > 1e-6 * max(1.0, abs(tk)):
                    rec.offgrid = True
                tk = int(round(tk))
            except Exception:
                tk, rec.offgrid = 0, True
            return rec.call("AddTime", self, {"d": tk}, lambda: orig(self, *a, **kw))
        return add_time

    def mk_reset(orig):
        def reset_start(self, *a, **kw):
            return rec.call("Reset", self, {"x": 0}, lambda: orig(self, *a, **kw))
        return reset_start

    def mk_update(orig):
        def update_noise(self, *a, **kw):
            return rec.call("UpdateNoise", self, {"x": 0}, lambda: orig(self, *a, **kw))
        return update_noise

    def mk_init(orig):
        def __init__(self, *a, **kw):
            if rec.depth > 0:
                return orig(self, *a, **kw)
            rec.depth += 1
            try:
                orig(self, *a, **kw)
            finally:
                rec.depth -= 1
            fam = rec.family(self)
            snap = rec.snap(fam)
            rec.events.append({"e": "Create", "kind": "array" if isinstance(self, _ant.MultiAntennaArray) else ("antenna" if isinstance(self, _ant.Antenna) else "stream"),
                               "ids": [rec.id_of(x) for _, x in fam], "roles": [r for r, _ in fam], "a": {"x": 0}, "before": snap, "after": snap,
                               "clen_b": rec.caches(self), "clen_a": rec.caches(self), "D": int(getattr(self, "max_delay", 0) or 0),
                               "delays": [int(x.delay or 0) for x in self.antennas] if isinstance(self, _ant.MultiAntennaArray) else [], "st": "ok"})
        return __init__

    try:
        for cls in (_ds.DataStream, _ds.BackgroundDataStream, _ant.Antenna, _ant.MultiAntennaArray):
            if "__init__" in cls.__dict__:
                patch(cls, "__init__", mk_init)
        for cls in (_ds.DataStream, _ant.Antenna, _ant.MultiAntennaArray):
            patch(cls, "get_samples", mk_get)
            patch(cls, "set_time", mk_set)
            patch(cls, "add_time", mk_add)
            if "reset_start" in cls.__dict__:
                patch(cls, "reset_start", mk_reset)
        patch(_ds.DataStream, "update_noise", mk_update)
        if "update_noise" in _ds.BackgroundDataStream.__dict__:
            patch(_ds.BackgroundDataStream, "update_noise", mk_update)
        yield rec
    finally:
        for cls, name, orig in reversed(saved):
            setattr(cls, name, orig)
