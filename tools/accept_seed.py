#!/venv/bin/python
"""Move a confirmed incoming seed to /verif/seeded/<name>/ and complete its meta.json with what was run."""
import json, os, shutil, sys
HERE = os.path.dirname(os.path.dirname(os.path.abspath(__file__)))
for name in sys.argv[1:]:
    src = os.path.join(HERE, "seeded", "_incoming", name)
    res = json.load(open(os.path.join(src, "result.json")))
    meta = json.load(open(os.path.join(src, "meta.json")))
    conf = os.path.join(src, "confirm.json")
    if not res.get("confirmed") and os.path.exists(conf):
        res.update(json.load(open(conf)))
    if not res.get("confirmed"):
        print("not confirmed:", name); continue
    meta["breaks_property"] = res["property"]
    if res.get("note"):
        meta["note"] = res["note"]
    meta["needs_to_manifest"] = meta.get("needs", "")
    meta["confirmed_by"] = {
        "what_was_run": "tools/try_seed.py: scratch worktree of /repo HEAD under /tmp; git apply patch.diff; demo.py exit "
                        "1 with the change and 0 without; repository test suite with the change",
        "demo_without_change_rc": res.get("demo_without"), "demo_with_change_rc": res.get("demo_with"),
        "repo_tests_with_change": res.get("tests_with"), "patch_apply": res.get("apply")}
    meta["detection"] = {"check": "vcheck.py %s --tier %s" % (res.get("check_property", res["property"]), res.get("tier")), "exit_code": res.get("check_rc"),
                         "detected": res.get("detected"), "first_lines": res.get("check_lines", [])[:4]}
    dst = os.path.join(HERE, "seeded", name)
    if os.path.exists(dst):
        shutil.rmtree(dst)
    os.makedirs(dst)
    for fn in ("patch.diff", "demo.py"):
        shutil.copy(os.path.join(src, fn), os.path.join(dst, fn))
    json.dump(meta, open(os.path.join(dst, "meta.json"), "w"), indent=1)
    shutil.rmtree(src)
    print("accepted", name, "detected=%s" % res.get("detected"))
