#!/bin/bash
# quick tier of every check under several seeds (looks for seed-dependent false alarms)
cd "$(dirname "$0")/.."
for seed in "$@"; do
  echo "=== seed $seed"
  VERIF_SEED=$seed tools/run_all.sh quick
done
