#!/bin/bash
# run every check of one tier in sequence, printing the summary line and wall time of each
tier=${1:-quick}
cd "$(dirname "$0")/.."
for p in C01 C02 C03 C04 C05 C06 C07 C08 C09 C10 C11 C12 C13 C14 C15 C16 C17 C18 C19 C20; do
  s=$(date +%s)
  out=$(/venv/bin/python vcheck.py $p --tier $tier 2>&1)
  rc=$?
  e=$(date +%s)
  echo "$p rc=$rc wall=$((e-s))s :: $(echo "$out" | grep -E "^$p tier|MACHINERY|violation-class" | tr '\n' ' ' | cut -c1-400)"
done
