#!/bin/bash
# collect_seeds.sh <worktree-prefix> <first-number> <ids...> : move seed_out/{1,2,3} of finished sub-agents into seeded/_incoming
pre=$1; first=$2; shift 2
for id in "$@"; do
  wt=/tmp/${pre}_$id
  [ -d $wt/seed_out ] || continue
  n=$first
  for k in 1 2 3; do
    if [ -f $wt/seed_out/$k/patch.diff ]; then
      mkdir -p /verif/seeded/_incoming/$id-$n && cp $wt/seed_out/$k/* /verif/seeded/_incoming/$id-$n/ && echo "collected $id-$n"
    fi
    n=$((n+1))
  done
  git -C /repo worktree remove --force $wt
done
