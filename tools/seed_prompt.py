#!/usr/bin/env python3
"""Print the prompt handed to an independent seeding sub-agent for one property.
Only the property text and a scratch worktree path are disclosed (nothing from /verif)."""
import json, sys
pid, wt = sys.argv[1], sys.argv[2]
n = sys.argv[3] if len(sys.argv) > 3 else "2"
flavour = sys.argv[4] if len(sys.argv) > 4 else ""
CLASSES = """
  The three changes must come from three DIFFERENT classes:
    change 1 - an INTERACTION: it needs two or more public calls or objects to manifest (state carried from one call to a later one, objects that share or alias mutable state or arrays, results that change when something else is done in between, order of operations);
    change 2 - a REGIME: it needs an unusual-but-valid size, magnitude, dtype, unit, sign, orientation or parameter combination (large counts, tiny or huge values, non-default numeric types, quantities with units, negative or zero where allowed, non-contiguous arrays, ...), while the common regime stays correct;
    change 3 - an EDGE or ERROR path: boundary equality, empty or degenerate input, the last element / last block / last file, an exception raised part-way and what state is left behind, rejected input that must leave no trace.
""" if flavour == "classes" else ("""
  Both changes must be COMPOSITIONS: each needs TWO independent conditions to hold at the same time before anything goes wrong (for example: a particular option AND a particular geometry; a second call on the same object AND an unusual argument type; an error raised part-way AND a later unrelated call; a size above some threshold AND a non-default flag). With only one of the two conditions the behaviour must stay exactly right. Say in meta.json which two conditions are needed. Avoid the most obvious mechanisms (caching a derived array on the object, np.isclose instead of ==, reusing an output buffer): pick something a reviewer would find harder to spot.
""" if flavour == "compose" else ("""
  The change must be INDIRECT: make it in a helper, utility, base class, default argument, unit conversion, shared constant or another module that the code most directly responsible for this property merely relies on (not in the obvious function itself), so that the property breaks through an indirect path while the edited code looks locally reasonable. Other users of the edited code should keep working (the test suite must pass). Avoid: caching a derived array on the object, np.isclose instead of ==, reusing an output buffer, dropping a reset call.
""" if flavour == "indirect" else ("""
  The two changes must be of these two kinds:
    change 1 - a HISTORY: it needs at least THREE public operations on the same object(s) (or an exception / fault raised at a particular point of a multi-step operation, followed by further use of the object) before anything goes wrong, and every shorter prefix of that sequence must behave exactly right (for example: only the third call, only a call after a failed call, only after two objects were used alternately, only after a reset following a partial read, only once an internal counter crosses a threshold);
    change 2 - a RARELY USED OPTION or CODE PATH: it is confined to a documented keyword argument, branch, mode or helper that typical scripts and the test suite never or hardly ever use (a non-default flag, a unit-carrying argument, the descending/ascending variant, the multi-polarisation / multi-antenna / multi-file variant, an odd size, a second output format), while the default path stays exactly right.
  Avoid the most obvious mechanisms (caching a derived array on the object, np.isclose instead of ==, reusing an output buffer, dropping a reset call, `<` for `<=` on the main path): pick something a reviewer would find harder to spot.
""" if flavour == "history" else "")))
for l in open('/verif/properties.jsonl'):
    p = json.loads(l)
    if p['id'] == pid:
        break
print(f"""You are helping to evaluate a verification effort by producing realistic *seeded defects*.

Work ONLY inside the scratch git worktree {wt} (a checkout of the Python library bbrzycki/setigen: it synthesizes narrow-band radio signals in spectrogram frames and simulates a PFB/quantizer pipeline that writes GUPPI RAW voltage files). Do not read or touch /repo or /verif or any other directory. The interpreter with all dependencies is /venv/bin/python; there is no network. Run things with `cd {wt} && PYTHONPATH={wt} /venv/bin/python ...` so that the worktree's copy of setigen is imported (check `setigen.__file__`).

The semantic property under study:

  Title: {p['title']}
  Statement: {p['statement']}
  Quantified over: {p['quantifier']['text']}

Your task: produce {n} DIFFERENT, independent source changes to the library (under {wt}/setigen/) each of which
  (a) BREAKS this property (for some input / call sequence / configuration in the quantified space),
  (b) still imports fine and still passes the library's existing test suite unchanged:
        cd {wt} && PYTHONPATH={wt} /venv/bin/python -m pytest -q -p no:cacheprovider -x --timeout=900
      (takes ~1 minute; all 55 tests must pass with the change applied; do not edit tests),
  (c) is REALISTIC (the kind of slip a maintainer could make in a refactor or "optimisation": an off-by-one, a wrong boundary, a stale cache, a swapped argument, a missed reset, a condition that is right for the common case only) and is SUBTLE: it must need something specific to manifest - a particular multi-step call sequence, an unusual-but-valid input or configuration, a particular partition/chunking, a failure at a particular point, or two cooperating sites that each look fine alone. Changes that ordinary use would expose at once (e.g. every call returns garbage) are NOT wanted.
  Prefer changes in different functions/mechanisms from one another.
{CLASSES}
For each change i (1..{n}) write, in {wt}/seed_out/<i>/ :
  - patch.diff : `git diff` of the change against the worktree HEAD (only files under setigen/), applying cleanly with `git apply` at the worktree root;
  - demo.py : a small self-contained program (uses only setigen + numpy etc., writes temp files only under a tempfile.TemporaryDirectory) that exits 0 when the property holds for its scenario and exits 1 (printing what differed) when it does not; it must exit 1 WITH the change and exit 0 WITHOUT it on this checkout. IMPORTANT: the unmodified library has some pre-existing bugs; choose a scenario where the unmodified library behaves correctly so that demo.py exits 0 on the unmodified checkout;
  - meta.json : {{"property": "{pid}", "summary": "<one sentence: what was changed>", "needs": "<what specific input/sequence/configuration is needed for it to manifest>", "files": [...]}}.

Procedure for each change: edit the source, run the full test suite (must pass), run demo.py (must exit 1), save `git diff -- setigen > seed_out/<i>/patch.diff`, then `git checkout -- setigen` and run demo.py again (must exit 0). Leave the worktree with the source reverted (only seed_out/ left over). Verify that each patch.diff applies with `git apply --check`.

Finish with a short report: for each change, the summary, what is needed to manifest, and confirmation of the three runs (tests pass with change; demo exit 1 with change; demo exit 0 without).""")
