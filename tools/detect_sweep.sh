#!/bin/bash
# detect_sweep.sh <VERIF_SEED> [ids...] : apply every accepted seeded change to the scratch repository $VERIF_REPO (never /repo:
# use `vp run --with-repo -- bash -c 'VERIF_REPO=$VP_RUN_REPO tools/detect_sweep.sh 1'`), run the quick check recorded in its
# meta.json under the given VERIF_SEED, revert, and report DETECTED / MISSED.
seed=$1; shift
repo=${VERIF_REPO:?set VERIF_REPO to a scratch copy of the repository}
[ "$repo" = "/repo" ] && { echo "refusing to patch /repo"; exit 2; }
cd "$(dirname "$0")/.."
ids="$@"; [ -z "$ids" ] && ids=$(ls seeded | grep '^C' )
miss=0
for s in $ids; do
  d=seeded/$s
  pid=$(python3 -c "import json,re;m=json.load(open('$d/meta.json'));print(re.search(r'vcheck.py (C\d\d)', m['detection']['check']).group(1))")
  git -C $repo apply $PWD/$d/patch.diff 2>/dev/null || git -C $repo apply --3way $PWD/$d/patch.diff 2>/dev/null || { echo "$s APPLY-FAILED"; git -C $repo reset -q --hard; continue; }
  out=$(VERIF_SEED=$seed VERIF_REPO=$repo /venv/bin/python vcheck.py $pid --tier quick 2>&1); rc=$?
  git -C $repo reset -q --hard
  if [ $rc -eq 1 ]; then echo "$s DETECTED by $pid (seed $seed) :: $(echo "$out" | grep -m1 violation-class)"; else echo "$s MISSED by $pid (seed $seed) rc=$rc :: $(echo "$out" | tail -1)"; miss=$((miss+1)); fi
done
echo "sweep done: missed=$miss"
