#!/venv/bin/python
"""Regenerate /verif/MANIFEST.json from the table below (single source of truth for the interface)."""
import json
import os

HERE = os.path.dirname(os.path.dirname(os.path.abspath(__file__)))
ALL = ["C%02d" % i for i in range(1, 21)]

BASELINE = ("cd /repo && env -u SETIGEN_VERIF /venv/bin/python -m pytest -ra -q -p no:cacheprovider --timeout=900 "
            "--continue-on-collection-errors")

# property -> dict(level text, note, technique, design_ref, engine)
CLAIMED = {
 "C18": dict(
    text=("Cadence.tla models Cadence/OrderedCadence as a guarded Python list with per-frame labels (one action per "
          "public operation, Python index/slice semantics spelled out). TLC checks the design exhaustively "
          "(rejection leaves list+labels alone, labels given only at the insertion position and stable, selection "
          "pure, slews exact). The same model is the test generator: every behaviour up to the bound (all start "
          "lists x both classes x every operation/argument) and thousands of random deeper behaviours are replayed "
          "on real setigen objects with ids/labels/aggregates/start times compared after every action. Leg T: free-form "
          "recorded executions (harness/record_cadence.py: several cadences sharing up to 16 objects, selections operated "
          "on further, deep copies, pickles, too-short order strings, list / tuple / ndarray index arrays) and the "
          "repository's own cadence and plotting tests (pytest plugin verif_cadence_recorder) are validated event by event "
          "against CadenceTrace.tla, which re-uses the Python list operators of the model-checked spec (PyList.tla) and "
          "names the failing clause of a rejected event."),
    note=("Trusted: TLC, the adapter's projection (identity via id(), integer times), the frame pool (4 compatible "
          "frames incl. a descending twin, 4 frames differing in one guarded attribute, 1 non-frame). Bounded: "
          "cadences <= 4 frames, exhaustive to 2 (quick) operations after construction, random to depth 6-8; recorded "
          "traces: 14-18 operations, times in 10 us ticks compared at 2 ticks."),
    technique="TLA+ model (TLC exhaustive) + spec-generated behaviours replayed on the implementation + trace validation of recorded executions (incl. the repository's tests)",
    design_ref="DESIGN.md 4.5, 5 (C18)", engine="cadence"),
 "C10": dict(
    text=("Stream.tla models DataStream clocks, Antenna and MultiAntennaArray with every sample identified by its "
          "integer tick and every noise value by its draw index; TLC checks Continuity / ClockExact / "
          "AntennaClockEqualsStreams / NoiseInOrder exhaustively over all request partitions interleaved with "
          "set_time/add_time/reset_start/update_noise. Every generated behaviour is replayed on real objects in "
          "identity, seeded-noise and chirp instantiations (dyadic, 187.5 MHz and 3 GHz rates, both orientations, "
          "real and complex custom sources) and the decoded sample identities, evaluation times, noise values, "
          "clocks and flags are compared with TLC's post-state after every call. Refused requests (negative or fractional "
          "counts) are actions of the model: they raise and leave clocks, flags and draw indices untouched; so is a request "
          "made of ONE polarisation stream directly (Peek: it alone runs ahead, variable skew), which the next set_time / "
          "add_time / reset_start must undo (ResyncAtStart); the clock relations are also proved for requests of any size "
          "and any tick by an inductive invariant (Inductive.tla machine C, Apalache, thorough tier). Leg T: recorded "
          "executions of every source call (harness/record_stream.py; free-form drivers and the repository's voltage tests, "
          "where RawVoltageBackend.record is the caller) are validated against StreamTrace.tla: families start together, a "
          "request moves every clock it drives by exactly its size, clocks are continuous between calls."),
    note=("Trusted: TLC, identity decoding (custom sources returning round(t*rate)), reference noise from a copy of "
          "each stream's generator, chirp closed form at atol 1e-7*level (numeric projection outside TLC). One "
          "noise source per stream. Bounded: requests <= 4-6 samples, <= 3 antennas, sequences exhaustive to "
          "depth 2 (quick) / 3 and random to depth 7-10."),
    technique="TLA+ model (TLC exhaustive) + spec-generated behaviours replayed on the implementation + trace validation of recorded executions",
    design_ref="DESIGN.md 4.7, 5 (C10)", engine="stream"),
 "C15": dict(
    text=("Stream.tla's GetArray action transcribes MultiAntennaArray.get_samples (background request of n+maxDelay "
          "on the first call, per-antenna slice, carried-over cache); TLC checks DelayAlignment (bg id = own id + "
          "maxDelay - delay), CacheIsUnusedTail, CacheClearedAtStart, BgConsecutive for all delay vectors over 0..2 "
          "(unsorted, repeated, all-zero, omitted) and request partitions. Replay on real arrays decodes own and "
          "background sample identities from identity-carrying sources and compares them, the cache lengths, "
          "clocks and flags with TLC's post-state after every call; seeded noise is compared value for value. A request not "
          "above the largest delay is refused and leaves no trace (BadRequest action). Leg T: every recorded array request is "
          "validated against StreamTrace.tla (background leads by the largest delay on the first request of an observation, "
          "delay_i samples carried per antenna, re-seating drops them)."),
    note=("Trusted: TLC, identity decoding, reference noise draws. Bounded: <= 3 antennas, delays <= 2, requests <= 6, "
          "depth as C10. Requests must exceed the maximum delay (library precondition)."),
    technique="TLA+ model (TLC exhaustive) + spec-generated behaviours replayed on the implementation + trace validation of recorded executions",
    design_ref="DESIGN.md 4.7, 5 (C15)", engine="stream"),
 "C09": dict(
    text=("Quantizer.tla models the statistics cache and refresh counter of RealQuantizer/ComplexQuantizer and the "
          "quantisation map round((K/s)(x-m)+tm) clipped to the signed b-bit range over exact integers (set-valued at "
          "rounding ties). TLC checks InRange, Monotone, RefreshSchedule (counter = calls mod p, first-call-only for "
          "p <= 0), CachedFromRefreshCall and ZeroVariance for all (bits, period, target deviation/mean, real/complex) "
          "and call sequences with resets and custom deviations. Generated behaviours are replayed on real quantiser "
          "objects; every output value must lie in TLC's admissible set and the counter/cached statistics must equal "
          "the model's after every call; quantize_real is driven over the same map. Leg T: the refresh schedule of every "
          "quantiser object inside real recordings (digitisers and requantisers per antenna / polarisation / component, "
          "periods incl. <= 0, second recordings, the repository's voltage tests) is validated against QuantTrace.tla; the "
          "refresh counter and 'cached statistics come from the most recent scheduled call' are proved inductively for any "
          "period and any number of calls (Inductive.tla, Apalache, thorough tier). Target means are drawn in quarters "
          "(0, 1, -2, 0.5, -3.75, 2.25): the target mean sits inside the rounding."),
    note=("Trusted: TLC, inputs built with exactly representable prefix mean/deviation (stats_calc_num_samples=2), "
          "+-1e30 as 'huge'. Bounded: bits 2..8, periods -2..4, K in {1,3}, <= 10 calls. Internal attributes "
          "stats_calc_indices/stats_cache are compared when present."),
    technique="TLA+ model (TLC exhaustive) + spec-generated behaviours replayed on the implementation + trace validation of recorded executions",
    design_ref="DESIGN.md 4.9, 5 (C09)", engine="quantizer"),
 "C08": dict(
    text=("PFB.tla models channelize() as rows of B samples with the tail cache that makes chunked calls contiguous, "
          "and computes every spectrum exactly (Gaussian integers, B in {2,4}, integer window, real and complex "
          "input). TLC checks NoGapNoRepeat, CacheIsTail, ChunkingInvariant, ObjectsIndependent, OneShotIsPure over "
          "all sequences of cached/stateless calls and resets on two interleaved objects. Generated behaviours are "
          "replayed on real PolyphaseFilterbank objects (integer window assigned) and every returned spectrum and "
          "cache length compared with TLC's. For realistic (taps, branches, window) a harness-owned direct FIR+DFT "
          "definition, linearity, every composition of the stream into chunks (bit-for-bit vs one-shot), the FIR "
          "window design and get_pfb_voltages are checked numerically, several objects with the same taps x branches "
          "product in one process, non-contiguous inputs (column of an interleaved buffer, every other sample) and a scale "
          "leg (1024 branches, long streams) included; the tail-cache counter is proved inductively for any number of "
          "windows (Inductive.tla, Apalache, thorough tier)."),
    note=("Trusted: TLC, numpy FFT-free direct definition with explicit DFT matrix (1e-9 relative), scipy firwin as "
          "the window definition. Exact leg bounded to B in {2,4}, taps in {2,3}, <= 6 windows; numeric leg to "
          "B <= 1024, taps <= 16."),
    technique="TLA+ model (TLC exhaustive) + spec-generated behaviours replayed on the implementation + numeric definition check",
    design_ref="DESIGN.md 4.8, 5 (C08)", engine="pfb"),
 "C02": dict(
    text=("Backend.tla is a step machine of record()/collect_data_block(): RecordBegin, OpenFile, WriteHeader, "
          "PlanBlock (W, subblock_T, in-place update of num_subblocks), Request (W windows at the start of an "
          "observation, W-1 afterwards), Store (the t_idx byte writes per polarisation for 8- and 4-bit), "
          "WriteBlock, CloseFile, RecordEnd, with the PFB tail cache and antenna clock explicit. TLC checks "
          "LayoutIsGuppi (every byte of every block holds exactly spectrum k*T+t / pol / component of the standard "
          "layout), NoDoubleWrite, SubblocksPartitionBlock, NumSubblocksIdempotent, CacheHandover, BlocksPerFile, "
          "SamplesDrawn, HistoryIndependence for every (taps, windows/block, num_subblocks incl. non-dividing and "
          "larger than the windows, blocks, blocks/file, pols, bits) and two recordings (three in a fifth of the replayed behaviours). Configurations drawn by TLC "
          "are recorded by real backends (antenna or 2-antenna array with delays, digitiser on/off, both "
          "orientations, three sample rates, random start channel); the antenna request sequence, files and "
          "PKTIDX must equal TLC's and every data byte must equal the harness-owned reference pipeline (quantise, "
          "FIR + explicit DFT, requantise, GUPPI encode) fed by a same-seed twin antenna in one request. Leg T: real "
          "record() executions at realistic sizes (1024 branches, 8 taps, arrays with delays, second recordings on the "
          "same backend) and the repository's own voltage tests run under a run-time recorder (harness/record.py, pytest "
          "plugin verif_recorder) are validated event by event (header/PKTIDX, request size and start flag, clock advance "
          "of the source and of every stream, channelize input/cache/output rows, updated num_subblocks, block count) "
          "against BackendTrace.tla. Blocks beyond 2^16 spectra are recorded in a scale leg; the thorough tier discharges "
          "the sub-block plan lemma (fixed point, cover, last partial sub-block) for all sizes with Apalache "
          "(ArithLemmas.tla) and the inductive invariant of the sub-block loop and of the blocks / files / PKTIDX counters "
          "(Inductive.tla). Backend.tla's Abort action (the voltage source raises on the 2nd or 3rd request of an attempt) "
          "puts a failed recording before the judged ones: the failure must propagate and the next record() must write "
          "what it would have written anyway."),
    note=("Trusted: TLC, the reference pipeline and GUPPI encoder/parser in /verif/harness, numpy arithmetic. "
          "Statistics from a common prefix (period -1); 1-LSB tolerance only within 1e-7 of a rounding tie of the "
          "reference. Bounded: taps 2-3, <= 7 windows/block, <= 3 blocks, branches 8/16."),
    technique="TLA+ model (TLC exhaustive) + spec-generated configurations recorded by the implementation (bytes vs reference pipeline) + trace validation of recorded executions",
    design_ref="DESIGN.md 4.10, 5 (C02)", engine="backend"),
 "C04": dict(
    text=("RawFiles.tla models GUPPI framing (cards, DIRECTIO padding rule, BLOCSIZE) and the library's readers by their "
          "mechanism (fixed-size reads until EOF, 'last file' of a listing); TLC checks HeaderSizeRule, "
          "ReadersAgreeWithParser and TotalBlocksListingInvariant for every header length 16..79 cards (each residue "
          "mod 32 twice), DIRECTIO absent/0/1, 1-3 files, up to 9 blocks per file, partial last file and every listing "
          "permutation. R: TLC-generated directories are written by the harness's own GUPPI writer and read by "
          "read_header / get_blocks_in_file / get_blocks_per_file / get_total_blocks (listing order substituted) / "
          "get_raw_params. T: real recordings with 0..39 extra user cards, template on/off, DIRECTIO absent/0/1/'1', "
          "owned-field override attempts, template-overlapping zero-valued user cards, 1-4 blocks, 1-3 blocks/file, "
          "antenna/array are parsed by the independent parser into traces validated by RawFilesTrace.tla (position, "
          "padding, BLOCSIZE, PKTIDX step, owned fields, user cards, file count). Backend.tla adds BlocksPerFile / "
          "PktIdxStep over two (in a fifth of the replayed behaviours three) recordings per process. Recordings made before / next to existing files of the same stem, "
          "END-prefixed card names, headers of 128 cards and more, and the DIRECTIO padding rule for all header lengths "
          "(Apalache, thorough tier) are covered."),
    note=("Trusted: TLC, the independent parser/writer harness/guppi.py, float comparison of header values at 1e-12 "
          "relative (card text formatting is a projection). Empty-string card values are not exercised."),
    technique="TLA+ model (TLC exhaustive) + trace validation of recorded files + spec-generated directories read by the implementation",
    design_ref="DESIGN.md 4.10-4.11, 5 (C04)", engine="rawfiles"),
 "C20": dict(
    text=("Accounting.tla fixes the closed forms over integers/rationals (samples per block, time per block, blocks for "
          "a duration (k + r) blocks, totals, PKTSTOP, block size for a number of fine spectra); TLC checks SpbExact, "
          "DurationBlocks, TotalsConsistent, HelperBlockSizeAdmitted over all enumerated configurations. Each emitted "
          "configuration is instantiated: backend attributes, get_num_blocks for 12 durations (+-1e-12 at boundaries), "
          "get_total_obs_num_samples in both modes, get_block_size, get_unit_drift_rate, params_from_backend / "
          "from_backend_params, and a recording by duration (attributes, blocks on disk, SCANLEN, PKTSTOP, antenna "
          "clock advance). Backend.tla adds SamplesDrawn / ClockAdvance and the exact antenna request sequence of "
          "every recording; InputMode.tla adds the length clamped to the input recording. Durations include 5000 and "
          "20000 blocks a hair (1e-5 block) short of a boundary."),
    note=("Trusted: TLC rationals, python Fractions in the adapter; floats compared at 1e-12..1e-14 relative. Sample "
          "rate 3e9 is reached by scaling 187.5e6 x16 (TLC integers are 32-bit). Sign of get_unit_drift_rate for "
          "descending bands is not judged (absolute value compared)."),
    technique="TLA+ model (TLC exhaustive) + spec-generated configurations replayed on the implementation",
    design_ref="DESIGN.md 4.10, 5 (C20)", engine="accounting"),
 "C14": dict(
    text=("InputMode.tla models from_data/record onto existing RAW: output block k is built from input block k read at "
          "a block boundary of input file k div bpf, at most min(requested, input) blocks are written, and the custom "
          "deviation handed to the requantiser is the filterbank's cached unit-noise deviation times the digitiser "
          "target deviation (or 1) at every sub-block, with the cached value untouched. TLC checks ReadsInOrder, "
          "LengthClampedToInput, GainStationary, CachedStdUntouched over all (blocks/file, files, partial last file, "
          "requested length <,=,>, omitted; sub-blocks; digitiser). Each configuration is instantiated (8/4 bit, 1-2 "
          "pols, 1-2 antennas, padded/unpadded headers of varying length, tone or nothing injected, lazy or "
          "pre-computed unit-noise estimate): every decoded input block must equal the stored samples exactly, the "
          "framing and length accounting must match, the custom deviation of every requantiser call must equal the "
          "model's, the synthetic spectra must be the PFB of one continuous antenna timeline, the second "
          "requantisation must take input + scaled synthetic with the input block's statistics as targets, the file "
          "bytes must be the requantised values in standard layout, and with nothing injected and one sub-block the "
          "output must reproduce the input bit for bit. A second recording by the same from_data backend with the same or "
          "the flipped digitise flag is part of the model."),
    note=("Trusted: TLC, harness GUPPI writer/parser, reference PFB; observation through wrappers on _read_next_block and "
          "the requantisers' RealQuantizer.quantize (pipeline-internal methods). A third of the configurations have a "
          "window count that num_subblocks does not divide (shorter last sub-block). Quantisation formula itself is C09's."),
    technique="TLA+ model (TLC exhaustive) + spec-generated configurations replayed on the implementation with wrapped pipeline stages",
    design_ref="DESIGN.md 4.10, 5 (C14)", engine="inputmode"),
 "C07": dict(
    text=("Registration.tla is an integer model (unit: half a fine bin) of the frequency bookkeeping: coarse-channel "
          "centres, recorded channel range, OBSFREQ/OBSBW/CHAN_BW, fine bins of an L-point shifted FFT; TLC checks "
          "HeaderLocatesTone (the frequency the header assigns to the expected bin is within half a fine bin of the "
          "tone, for every tone position on the half-bin grid of the recorded band), ParamsRoundTrip and ReducerShape "
          "for branches 8/16, L 8/16, both orientations, every first channel and channel count. Each generated "
          "configuration is a real recording (3 sample rates, 3 fch1, 1-2 pols, padded/unpadded header): the peak of a "
          "harness-owned fine FFT must sit in TLC's channel/bin and the header-derived frequency must be within one "
          "fine bin of the tone; OBSFREQ/CHAN_BW/OBSBW/TBIN must equal the model's; get_raw_params must reproduce "
          "fch1/chan_bw/orientation; get_pfb_waterfall and get_waterfall_from_raw must have TLC's shape, peak column "
          "and the values of consecutive integrations from the start; chirps of both signs must follow f_start + "
          "drift*t segment by segment, also across a second recording by the same backend (continuing from the time "
          "elapsed on the source). Drawn per configuration: headers padded to exactly 32 n cards under DIRECTIO (no "
          "padding), and re-recording through from_data with the same first-channel index (output header cards, tone "
          "location and get_raw_params must equal the input's)."),
    note=("Trusted: TLC, the harness GUPPI parser, numpy FFT for peak finding (numeric projection outside TLC), tone "
          "26 dB above noise. Excluded as in the statement: DC-straddling channel, channel centres; additionally "
          "tones within half a fine bin of a coarse-channel edge (aliased by the critically sampled PFB)."),
    technique="TLA+ model (TLC exhaustive) + spec-generated configurations recorded by the implementation, FFT peak projected onto the model's bins",
    design_ref="DESIGN.md 4.12, 5 (C07)", engine="registration"),
 "C05": dict(
    text=("FrameAxes.tla puts frames on an integer grid (quarter channels, quarter time steps): fs, ts, ts_ext, fmin/fmax/"
          "fch1/fmid, index of every quarter-channel position (both neighbours at exact halves), drift rates; TLC checks "
          "StrictlyIncreasing, UniformSpacing, Fch1IsEndpoint, RoundTrip, NearestChannel, TwinAxesEqual, DerivedFromGrid "
          "for all (F, T, orientation, band position, construction route). Every abstract frame is built on real "
          "(df, dt, f0) geometries (dyadic, BL hi-res at 6 GHz, decimal 0.1/0.7, MHz-scale, milli-Hz at 8 GHz) through "
          "all five routes (sizes, shape, data/from_data, astropy quantities in kHz/ms/MHz/GHz, backend parameters) and "
          "every attribute / conversion is placed on TLC's grid with exact Fractions; the opposite-orientation twin must "
          "have the same axes and produce the same injected data; ts_ext must follow the time axis after it has been "
          "moved in place (what Cadence.add_signal does) and after it has been put back. Leg T: every frame constructed in "
          "recorded frame lives (all construction routes, derived frames, copies, frames loaded from files) and in the "
          "repository's own tests is validated against FrameTrace.tla's C05 clauses (axes match the shape; frequency axis "
          "strictly increasing on the uniform df grid with fch1 at the end its orientation says; ts = i*dt)."),
    note=("Trusted: TLC, python Fractions; tolerance max(1e-6 channel, 4 ulp of the absolute frequency) for frequencies, "
          "4 ulp for times, 1e-14 relative for resolutions; injected-data equality of twins at 1e-9 + 256 ulp(f)/df."),
    technique="TLA+ model (TLC exhaustive) + spec-generated frames instantiated on the implementation + trace validation of every frame constructed in recorded executions (incl. the repository's tests)",
    design_ref="DESIGN.md 4.1, 5 (C05)", engine="frameaxes"),
 "C01": dict(
    text=("Injection.tla transcribes add_signal's case analysis over exact integers with an integer-valued probe family "
          "(polynomial path, mod-3 time profile, triangle frequency profile, mod-2 bandpass): Expected(c) is the "
          "documented per-component average (left Riemann t/f sub-sample grids, smearing = mean of n copies between "
          "consecutive path values) as integer numerators over Den(c), with ValueError/TypeError outcomes for malformed "
          "forms and 'array of T+1 values accepted with smearing'. TLC checks self-consistency invariants "
          "(ScalarEqualsConstantFn, ArrayEqualsFnOnGrid, Smear1EqualsUnsmeared, ErrorsContributeNothing, ...) and "
          "generates every configuration of three exhaustive families (forms x flags; ranges; paths x sub-sample counts) "
          "plus a random cross product assembled by a Pick chain; each is executed by the real add_signal on 3 geometries "
          "(dyadic, BL hi-res at 6 GHz, MHz-scale), both orientations, and the returned matrix compared with TLC's. "
          "Shipped path/profile families with random parameters are compared with the statement written out by the "
          "harness from the user's own callables (numeric projection). Odd geometry (df 1.7, dt 0.7), unit-carrying "
          "bounding ranges and a large-grid leg are included."),
    note=("Trusted: TLC, the float implementation of the probe family in the adapter, geometry-scaled tolerance "
          "(1e-9 + 64 ulp(fmax)*24/df*16), numpy. Left Riemann grids are taken as 'the documented average'. Unspecified "
          "and not generated: array bandpass with bounding range or integrate_f_profile; several malformed components."),
    technique="TLA+ model (TLC exhaustive) + spec-generated configurations executed by the implementation; definition-based oracle for shipped families",
    design_ref="DESIGN.md 4.2, 5 (C01)", engine="injection"),
 "C06": dict(
    text=("Same Injection.tla behaviours (1-3 injections, prior pixel-identity content in float32, every 10th loaded from a "
          ".fil): TLC checks ReturnedZeroOutsideBounds and BoundedIsRestriction; on the real frame after every injection "
          "data_after == data_before + returned (bit for bit in the frame's dtype), columns outside the clipped range "
          "byte-identical, fs/ts/shape/noise estimates/metadata/rng state/t_start unchanged (also after a raising call), "
          "caller-supplied arrays not modified, bounded == unbounded restricted (twin frame), final data == prior + sum of "
          "returned signals, same data in reverse order, and a repeated injection of the same description (with a "
          "callable that hands out a persistent array) returns the same signal. Leg T: every injection call of free-form "
          "recorded frame lives and of the repository's own tests is validated against FrameTrace.tla (returned array is "
          "the delta, axes / metadata / estimates untouched, a raising injection adds nothing)."),
    note=("Trusted: as C01. Superposition compared at 1e-9 (float64) / 2e-7 (float32) relative."),
    technique="TLA+ model (TLC exhaustive) + spec-generated behaviours replayed on the implementation + trace validation of recorded executions",
    design_ref="DESIGN.md 4.2, 5 (C06)", engine="injection"),
 "C13": dict(
    text=("ConstSignal.tla decides, over integers (1/24 channel), the number of smearing sub-steps max(1, ceil(|drift|/unit)), "
          "the per-pixel relation between helper and general signal (must-equal everywhere for box / truncated sinc^2; "
          "within the FWHM around the swept signal centre for gaussian / lorentzian / voigt, equal-or-zero outside) and the "
          "mirror partner; TLC checks SubstepsPositive, ZeroDriftOneStep, NegDriftIsMirror, CentreMustEqual for every start "
          "position (inside, on the edge, between channels, outside the band), drift -4..+4 channels/step incl. 0, widths "
          "0.04..10 channels, five profiles, smearing on/off. Each generated configuration runs the real helper against the "
          "real general add_signal on a twin frame (3 geometries, both orientations) under TLC's mask, plus the mirror and "
          "zero-drift identities on the real code."),
    note=("Trusted: TLC, the general add_signal as reference (C01 decides it), tolerance 1e-9 + 512 ulp(f)/min(width, df); "
          "box-profile pixels exactly on the discontinuity are not judged; voigt FWHM from the library's own approximation "
          "rounded down."),
    technique="TLA+ model (TLC exhaustive) + spec-generated configurations executed by the implementation against its general path",
    design_ref="DESIGN.md 4.2, 5 (C13)", engine="constsignal"),
 "C16": dict(
    text=("CadenceInject.tla splits Cadence.add_signal into Shift / Inject / Unshift per frame so that a callback raising "
          "inside the k-th frame's injection is an ordinary behaviour; TLC checks TsRestoredWhenIdle (also after the "
          "exception), OffsetIsRelativeStart, AtMostOnce, RaisePartition, OneShiftedAtATime, SlewExact and computes, "
          "with InjectionMath's Expected evaluated r rows later, the matrix every frame must receive (sub-sample "
          "integration and smearing included). Each behaviour (1-4 frames, gaps, unequal lengths, subsets all / stepped "
          "slice / tail, raising on every k) runs on real plain and ordered cadences on 2 geometries: exception "
          "propagation, every frame's ts restored, every frame's data equal to TLC's matrix (zero for frames at/after the "
          "raise), consolidation in order with absolute times, overwrite_times chain and slew_times equal to TLC's, "
          "sub-cadences never re-spacing the parent. Two consecutive cadence-wide injections over different sub-cadences "
          "(direct frame injection in between, BaseException callbacks) are part of the model, and so is a change of the "
          "start times between them (action Retime: overwrite_times with another slew time, or one start time assigned "
          "directly) -- the second injection owes the offsets of the start times as they are then. Leg T: recorded executions "
          "of Cadence.add_signal (per-member Inject events with the time-axis offset of every member at that moment, "
          "raising callbacks, overwrite_times) incl. the repository's own cadence injection test are validated against "
          "CadenceTrace.tla (in list order, offset = relative start, stops at the raise, axes restored, start times "
          "untouched, slews exact)."),
    note=("Trusted: as C01 (probe family, geometry-scaled tolerance); start times are whole multiples of dt; ts compared "
          "at 4 ulp of the shifted magnitude."),
    technique="TLA+ model (TLC exhaustive) + spec-generated behaviours (incl. fault at every step) replayed on the implementation + trace validation of recorded executions",
    design_ref="DESIGN.md 4.5, 5 (C16)", engine="cadinject"),
 "C03": dict(
    text=("FrameLife.tla models the life of frames with pixel identities (1000*(row+1) + world channel): create (sizes / "
          "from_data, both orientations), get_waterfall, copy, mutate, slice, de-drift, integrate, save (.fil/.h5), load, "
          "load of a frequency sub-band; TLC checks SaveLoadFaithful / Row0Registered / DerivedIsCopy / DerivedKeepMeta over "
          "all action sequences within the bound. Random behaviours drawn by TLC are replayed on real frames on 3 "
          "geometries; after every action every live object must project onto TLC's (shape, orientation, band position, "
          "pixel identities, start time, source name, consistent axes); every saved file is read back by blimpy.Waterfall "
          "(each file column must hold the pixels of the world channel its header frequency says), by Frame(path), and by "
          "the stand-alone helpers get_fs / get_ts / min_freq / max_freq / get_data (exact lengths, header-derived values). "
          "Leg T: free-form recorded frame lives (frames of any history saved as .fil / .h5 to a few paths that are overwritten "
          "in either format by other frames, then constructed again from the file) and the repository's own tests are "
          "validated against FrameTrace.tla, whose per-path state (generation, exact signature of the last successful save) "
          "decides what a load owes: the saved shape, float32 pixels, orientation and source name (compared by TLC), the "
          "saved axes / resolutions / start time (projected by the recorder against its snapshot of the same generation), "
          "and agreement of the stand-alone helpers with the loaded frame for every file at all."),
    note=("Trusted: TLC, blimpy as independent reader, float32 exactness of the identities, start time at 1e-4 s (MJD "
          "header). blimpy's HDF5 reader needs >= 3 integrations and >= 3 channels: .h5 saves are generated only for such "
          "frames. Sub-band loads are judged on registration, not on which edge channels blimpy selects."),
    technique="TLA+ model (TLC exhaustive) + spec-generated behaviours replayed on the implementation with an independent file reader + trace validation of recorded save/load executions (incl. the repository's tests)",
    design_ref="DESIGN.md 4.4, 5 (C03)", engine="framelife"),
 "C17": dict(
    text=("Same FrameLife.tla behaviours; judged here: slice [l, r) has exactly columns l..r-1 of data and axis; de-drift by "
          "q quarter-channels/row shifts row i by round(|q| i / 4) (half-even) towards the start of the drift, keeps row 0 "
          "registered, trims to the common band, rejects rates leaving no channels (ValueError), both via the argument "
          "and via metadata; integration sums / means per column and per row, Spectrum / TimeSeries objects carrying the "
          "parent's axis, orientation, start time and source; normalised output an increasing affine image; derived "
          "frames keep orientation / resolutions / start time / source name and hold their own data (Mutate never "
          "changes another object). Replaced time axes (shifted, or gapped as Cadence.consolidate makes them) are part of "
          "the state: de-drifting and integration go by row index, the TimeSeries carries the parent's axis; every "
          "sequence over a small alphabet around them is enumerated exhaustively (Focus = derive). Leg T: every recorded "
          "slice / de-drift / integrate call (drivers and the repository's tests) is validated against FrameTrace.tla, which "
          "also tracks the drift rate each frame's own bookkeeping dictionary was left with (add_metadata / derivation): a "
          "de-drift 'from metadata' and get_metadata must see that rate, not one written through a parent or child."),
    note=("Trusted: as C03. Drift rates are multiples of a quarter channel per row on exactly representable geometries "
          "plus BL hi-res; |q| <= 9/4 channels per row."),
    technique="TLA+ model (TLC exhaustive) + spec-generated behaviours replayed on the implementation + trace validation of recorded executions",
    design_ref="DESIGN.md 4.4, 5 (C17)", engine="framelife"),
 "C19": dict(
    text=("Split.tla models split_waterfall_generator as a loop over an integer window index and split_array as its two "
          "nested loops with in-bound flags; TLC checks PieceCount (floor((N-F)/s)+1), PieceCovers ([i s, i s + F)), "
          "Partition (shifts = tile sizes: every cell in exactly one tile, row-major) and TrimKeepsFullTiles for all "
          "(N, F, s) up to 9 and all array shapes / tile sizes / shifts / trim flags up to 5x5. Jobs drawn by TLC (up to "
          "12 channels, 6x6 arrays) run on the real code: band jobs on real .fil files with pixel identities at 6 "
          "(df, f0) geometries and both orientations (piece count, each piece's data = the file channels TLC names, its "
          "first-channel frequency, the requested leading integrations, split_fil output loadable and registered, output "
          "directory re-used across jobs, up to 4 different splits of one unchanged file); array jobs tile by tile incl. "
          "ragged untrimmed edges and default shifts, in 6 memory layouts (contiguous, views of larger arrays, strided "
          "rows, Fortran order, float32). The thorough tier discharges PieceCount for all sizes with Apalache."),
    note=("Trusted: TLC, blimpy for reading pieces, pixel identities exact in float32; piece frequencies at 1e-3 channel."),
    technique="TLA+ model (TLC exhaustive) + spec-generated jobs executed by the implementation",
    design_ref="DESIGN.md 4.6, 5 (C19)", engine="split"),
 "C11": dict(
    text=("Noise.tla models the noise bookkeeping: which estimate a frame holds after any sequence of add_noise (chi2 / "
          "gaussian / truncated), add_noise_from_obs (shared or separate index; user tables or the built-in ones), zero_data, "
          "add_signal and SNR queries ('zero', the requested parameters, or a re-estimate), k = 4 round(df dt) (set-valued at "
          "exact halves), and on the voltage side variances adding in quadrature incl. the shared array background; TLC "
          "checks FirstNoiseSetsParams, LaterNoiseReestimates, ZeroDataResets, SignalLeavesEstimate, QuadratureSum. "
          "Behaviours drawn by TLC are replayed on real frames (60000 pixels) and a real 2-antenna array: returned noise == "
          "data delta bit for bit, estimates equal to the parameters / chi2 formula with TLC's k / the sigma-clipped "
          "re-estimate, table parameters are table entries (one common row when shared; built-in table scaled by dt), "
          "truncated noise >= floor, intensity/snr inverse and ValueError without noise, stream/background/total "
          "deviations equal TLC's variances after every call; user-defined sources and update_noise() on streams and "
          "backgrounds are actions of the model (UpdateKeepsRealised, AddNoiseAddsInQuadrature), the re-estimated "
          "deviation is judged statistically and later add_noise calls must add to it in quadrature. Frames are driven at "
          "intensity scales 1, 4e6, 1e-3 and 1e-10. Leg T: free-form recorded frame lives (harness/record_frame.py) and the "
          "repository's own non-voltage tests are validated against FrameTrace.tla, which decides from the tracked "
          "estimate of each frame which recorder-projected predicate every call owed."),
    note=("Distribution clauses are OUTSIDE what TLC evaluates: sample mean and variance of every added noise array and of the "
          "realised voltages are tested at 6.5 standard errors (from the sample's fourth moment) against the mean / "
          "variance the spec names; false-alarm probability < 1e-6 per run. Trusted: numpy/scipy normal cdf, astropy "
          "sigma_clip for the re-estimate."),
    technique="TLA+ model (TLC exhaustive) + spec-generated behaviours replayed on the implementation + trace validation of recorded executions; moments as z-score projections",
    design_ref="DESIGN.md 4.3, 5 (C11), 9", engine="noise"),
 "C12": dict(
    text=("A two-run property decided with behaviours generated by the existing specifications. Backend.tla's "
          "HistoryIndependence / PktIdxStep over two (replay: also three) recordings per process and three header-dictionary modes (shared "
          "default, same dict passed again, fresh dict) is model-checked and replayed: request sequence, files, PKTIDX and "
          "every header card of the second recording must equal the first's, its data bytes must equal the reference "
          "pipeline fed by a same-seed twin antenna (what a fresh backend in the same antenna state would write), and the "
          "caller's dictionary must be unchanged. Every recording behaviour, every Stream.tla request sequence and seeded "
          "frame scripts (chi2 / table / gaussian noise, RFI path, pulse profile) are executed twice in fresh object graphs "
          "(bit-identical bytes / voltages / data required) and once with different seeds (different output required; "
          "polarisations and antennas must not share noise). FrameLife.tla behaviours judge copies, pickle round trips "
          "(dumps/loads and save_pickle/load_pickle) and loaded frames: equal to the original in every projected "
          "attribute (incl. a replaced time axis) and unchanged when any other object is mutated. A cross-process leg runs "
          "one workload in two fresh interpreters (different hash seeds) and compares digests. The two background streams of an "
          "array must draw different noise. Leg T: recorded frame lives and the repository's tests validated against "
          "FrameTrace.tla: Frame.copy / deepcopy / pickle round trips / save_pickle + load_pickle return an equal frame "
          "sharing no array or dictionary with the original, and (per-frame pixel digest tracked by the specification) a "
          "frame's pixels change only through its own calls while originals, copies and re-wrapped arrays are operated on "
          "alternately."),
    note=("Trusted: as C02 / C03 / C10. The channelised-noise estimate used for injection onto RAW is deterministic only if "
          "the user seeds it beforehand (estimate_channelized_stds(seed=...)); the backend's lazy call is unseeded by "
          "design of the API and is not judged."),
    technique="TLA+ models (TLC exhaustive) + spec-generated behaviours executed twice on the implementation (same seeds / different seeds) + trace validation of recorded copy / pickle executions",
    design_ref="DESIGN.md 4.4, 4.7, 4.10, 5 (C12)", engine="backend+stream+framelife"),
}

NOT_YET = "no check (see DESIGN.md)"


ADAPTER_SPEC = {"cadence": "Cadence.tla, CadenceTrace.tla, PyList.tla", "cadinject": "CadenceInject.tla, InjectionMath.tla, CadenceTrace.tla",
                "stream": "Stream.tla, StreamTrace.tla", "quantizer": "Quantizer.tla, QuantTrace.tla, Inductive.tla", "pfb": "PFB.tla, Inductive.tla",
                "backend": "Backend.tla, BackendTrace.tla, ArithLemmas.tla, Inductive.tla", "rawfiles": "RawFiles.tla, RawFilesTrace.tla, ArithLemmas.tla",
                "accounting": "Accounting.tla", "inputmode": "InputMode.tla", "registration": "Registration.tla", "frameaxes": "FrameAxes.tla",
                "injection": "Injection.tla, FrameTrace.tla", "constsignal": "ConstSignal.tla", "framelife": "FrameLife.tla, FrameTrace.tla",
                "split": "Split.tla, ArithLemmas.tla", "noise": "Noise.tla, FrameTrace.tla"}


def engines():
    out = [{"name": "tlc", "path": "/verif/harness/tlc.py", "serves_properties": sorted(CLAIMED),
            "kind_free_text": "TLC 1.8 model checker / simulator driven from Python (model checking, behaviour generation, batch trace "
                              "validation via harness/trace.py); specs in /verif/spec"},
           {"name": "apalache", "path": "/verif/harness/tlc.py", "serves_properties": ["C02", "C04", "C08", "C09", "C10", "C19"],
            "kind_free_text": "Apalache 0.58 (thorough tier): ArithLemmas.tla (length 0) and the inductive invariant of Inductive.tla "
                              "(base + step) over unbounded integers; 'not discharged' is reported, never a failure"}]
    serves = {}
    for pid, c in CLAIMED.items():
        for e in c["engine"].split("+"):
            serves.setdefault(e, []).append(pid)
    for e in sorted(serves):
        out.append({"name": e, "path": "/verif/harness/adapters/%s.py" % e, "serves_properties": sorted(serves[e]),
                    "kind_free_text": "adapter binding %s to the real setigen objects (replay of TLC behaviours; recorders / drivers for "
                                      "the trace legs where present)" % ADAPTER_SPEC.get(e, e)})
    return out


def main():
    checks = []
    for pid in ALL:
        if pid not in CLAIMED:
            continue
        c = CLAIMED[pid]
        checks.append({
            "property_id": pid,
            "quick_cmd": "cd /verif && /venv/bin/python vcheck.py %s --tier quick" % pid,
            "thorough_cmd": "cd /verif && /venv/bin/python vcheck.py %s --tier thorough" % pid,
            "evidence_file": "/verif/evidence/%s.json" % pid,
            "replay_cmd_template": "cd /verif && /venv/bin/python vcheck.py replay {path}",
            "engine": c["engine"],
            "level_claimed": {"category": "model_checking", "text": c["text"], "design_ref": c["design_ref"]},
            "level_note": c["note"],
            "technique": c["technique"],
        })
    man = {
        "version": 1,
        "setup_cmd": "cd /verif && /venv/bin/python tools/setup.py",
        "hooks": {
            "guard": "SETIGEN_VERIF",
            "enable": ("no source hooks: recorders wrap public methods at run time from /verif/harness; checks "
                       "import the working tree via PYTHONPATH=/repo (SETIGEN_VERIF=1 is exported by vcheck.py but "
                       "no code in /repo reads it)"),
            "baseline_off_cmd": BASELINE,
            "source_commits": [],
            "add_only": True,
        },
        "engines": engines(),
        "checks": checks,
        "notes": ("Every check: exit 0 held / exit 1 + VIOLATION line / exit 2 machinery failure. "
                  "Known findings: /verif/known_findings.json. Seeded changes used to test the checks: /verif/seeded."),
        "not_applicable": [{"property_id": p, "reason": NOT_YET} for p in ALL if p not in CLAIMED],
    }
    with open(os.path.join(HERE, "MANIFEST.json"), "w") as f:
        json.dump(man, f, indent=1)
    print("MANIFEST.json: %d checks, %d not claimed" % (len(checks), len(man["not_applicable"])))


if __name__ == "__main__":
    main()
