#!/venv/bin/python
"""MANIFEST.setup_cmd: offline sanity of the framework (nothing is fetched or built):
java/TLC present, every spec module parses with SANY, python deps import, scratch dirs exist."""
import glob
import os
import re
import subprocess
import sys

HERE = os.path.dirname(os.path.dirname(os.path.abspath(__file__)))
sys.path.insert(0, HERE)
sys.path.insert(0, "/repo")
os.environ.setdefault("MPLBACKEND", "Agg")
from harness import tlc  # noqa: E402

ok = True
os.makedirs(os.path.join(HERE, "out", "replays"), exist_ok=True)
os.makedirs(os.path.join(HERE, "evidence"), exist_ok=True)
try:
    v = subprocess.run(["java", "-version"], stdout=subprocess.PIPE, stderr=subprocess.STDOUT, universal_newlines=True)
    print(v.stdout.splitlines()[0])
except OSError as e:
    print("java missing: %s" % e)
    ok = False
for path in sorted(glob.glob(os.path.join(HERE, "spec", "*.tla"))):
    text = open(path).read()
    # unparenthesised % crashes this SANY build without a location (DESIGN 9)
    for n, line in enumerate(text.splitlines(), 1):
        code = line.split("\\*")[0]
        if re.search(r"[A-Za-z0-9_\)\]]\s*%\s*[A-Za-z0-9_\(]+\s*[-+*]", code) and "(" not in code.split("%")[0][-40:]:
            print("warning: possibly unparenthesised %% at %s:%d" % (os.path.basename(path), n))
    good, out = tlc.sany(os.path.basename(path))
    print("%-28s %s" % (os.path.basename(path), "parsed" if good else "PARSE ERROR"))
    if not good:
        print(out[-3000:])
        ok = False
try:
    import warnings
    warnings.filterwarnings("ignore")
    import numpy, scipy, astropy, blimpy, h5py  # noqa: F401,E401
    import setigen
    assert os.path.abspath(setigen.__file__).startswith("/repo/"), setigen.__file__
    print("python deps ok; setigen from %s" % setigen.__file__)
except Exception as e:  # noqa
    print("python import failure: %r" % (e,))
    ok = False
sys.exit(0 if ok else 1)
