#!/venv/bin/python
"""Confirm a seeded change and run a property check against it.

  try_seed.py <incoming-dir> <Cxx> [--no-confirm] [--confirm-only] [--scratch] [--tier quick]

1. confirmation in a scratch worktree of /repo HEAD (outside /repo and /verif): patch applies, demo exits 1
   with it and 0 without, the repository's tests pass with it;
2. detection: the patch is applied to /repo itself (git apply), the check is run, and the patch is undone
   straight afterwards (git checkout -- .).
   With --scratch the detection runs against a second scratch worktree instead (VERIF_REPO=<worktree>), so that several
   seeds can be tried at once; a seed a check misses there is tried again on /repo itself.
Writes <incoming-dir>/result.json."""
import json
import os
import shutil
import subprocess
import sys
import time

def sh(cmd, cwd=None, env=None, timeout=3600):
    e = dict(os.environ)
    if env:
        e.update(env)
    p = subprocess.run(cmd, shell=True, cwd=cwd, env=e, stdout=subprocess.PIPE, stderr=subprocess.STDOUT,
                       universal_newlines=True, timeout=timeout)
    return p.returncode, p.stdout


def main():
    d = os.path.abspath(sys.argv[1])
    pid = sys.argv[2]
    owner = pid                      # the property whose check is run (another one than the seeded property with --check Cyy)
    if "--check" in sys.argv:
        owner = sys.argv[sys.argv.index("--check") + 1]
    confirm = "--no-confirm" not in sys.argv
    tier = "quick"
    if "--tier" in sys.argv:
        tier = sys.argv[sys.argv.index("--tier") + 1]
    patch = os.path.join(d, "patch.diff")
    demo = os.path.join(d, "demo.py")
    out = {"property": pid, "dir": d, "tier": tier}
    if owner != pid:
        out["check_property"] = owner
    prev = os.path.join(d, "result.json")
    if not confirm and os.path.exists(prev):
        old = json.load(open(prev))
        for k in ("confirmed", "demo_without", "demo_with", "tests_with", "apply", "demo_with_tail"):
            if k in old:
                out[k] = old[k]
    if confirm:
        wt = "/tmp/seedwt_%d" % os.getpid()
        rc, o = sh("git -C /repo worktree add --detach %s HEAD" % wt)
        try:
            rc, o = sh("git apply --check %s" % patch, cwd=wt)
            if rc != 0:
                rc3, o3 = sh("git apply --3way %s" % patch, cwd=wt)
                out["apply"] = "3way" if rc3 == 0 else "FAILED: " + o3[-500:]
                if rc3 != 0:
                    print(json.dumps(out, indent=1)); return 2
                # regenerate the patch against HEAD (the 3-way result is staged)
                sh("git diff HEAD -- setigen > %s.new; git reset -q --hard" % patch, cwd=wt)
                if os.path.exists(patch + ".new") and os.path.getsize(patch + ".new") > 0:
                    shutil.copy(patch, patch + ".orig")
                    shutil.move(patch + ".new", patch)
            else:
                out["apply"] = "clean"
            env = {"PYTHONPATH": wt, "MPLBACKEND": "Agg"}
            rc0, o0 = sh("/venv/bin/python %s" % demo, cwd=wt, env=env)
            out["demo_without"] = rc0
            sh("git apply %s" % patch, cwd=wt)
            rc1, o1 = sh("/venv/bin/python %s" % demo, cwd=wt, env=env)
            out["demo_with"] = rc1
            out["demo_with_tail"] = o1[-600:]
            t = time.time()
            rct, ot = sh("/venv/bin/python -m pytest -q -p no:cacheprovider --timeout=900 -x -n 4 2>&1 | tail -3", cwd=wt, env=env)
            out["tests_with"] = ot.strip().splitlines()[-1] if ot.strip() else ""
            out["tests_wall"] = round(time.time() - t, 1)
        finally:
            sh("git -C /repo worktree remove --force %s" % wt)
        out["confirmed"] = (out.get("demo_without") == 0 and out.get("demo_with") == 1 and " passed" in out.get("tests_with", "")
                            and "failed" not in out.get("tests_with", ""))
    if "--confirm-only" in sys.argv:
        with open(os.path.join(d, "result.json"), "w") as f:
            json.dump(out, f, indent=1)
        print(json.dumps(out, indent=1))
        return 0
    if "--scratch" in sys.argv:
        wt = "/tmp/detwt_%d" % os.getpid()
        sh("git -C /repo worktree add --detach %s HEAD" % wt)
        try:
            rc, o = sh("git apply %s" % patch, cwd=wt)
            if rc != 0:
                out["detect"] = "patch does not apply: " + o[-300:]
            else:
                t = time.time()
                rc, o = sh("/venv/bin/python vcheck.py %s --tier %s" % (owner, tier), cwd="/verif", env={"VERIF_REPO": wt})
                out["check_rc"] = rc
                out["check_wall"] = round(time.time() - t, 1)
                out["detect_on"] = "scratch worktree of /repo HEAD with the patch applied (VERIF_REPO)"
                lines = [l for l in o.splitlines() if l.startswith("VIOLATION") or l.startswith("  module") or l.startswith("MACHINERY")]
                out["check_lines"] = lines[:6]
                out["detected"] = (rc == 1)
        finally:
            sh("git -C /repo worktree remove --force %s" % wt)
        with open(os.path.join(d, "result.json"), "w") as f:
            json.dump(out, f, indent=1)
        print(json.dumps(out, indent=1))
        return 0
    # detection on /repo itself
    rc, o = sh("git -C /repo status --porcelain --untracked-files=no")
    if o.strip():
        print("refusing: /repo has uncommitted changes:\n" + o); return 2
    try:
        rc, o = sh("git -C /repo apply %s" % patch)
        if rc != 0:
            out["detect"] = "patch does not apply to /repo: " + o[-300:]
        else:
            t = time.time()
            rc, o = sh("/venv/bin/python vcheck.py %s --tier %s" % (owner, tier), cwd="/verif")
            out["check_rc"] = rc
            out["check_wall"] = round(time.time() - t, 1)
            lines = [l for l in o.splitlines() if l.startswith("VIOLATION") or l.startswith("  module") or l.startswith("MACHINERY")]
            out["check_lines"] = lines[:6]
            out["detected"] = (rc == 1)
    finally:
        sh("git -C /repo checkout -- .")
    with open(os.path.join(d, "result.json"), "w") as f:
        json.dump(out, f, indent=1)
    print(json.dumps(out, indent=1))
    return 0


if __name__ == "__main__":
    sys.exit(main())
