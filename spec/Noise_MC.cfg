SPECIFICATION Spec
CONSTANTS
  MaxOps = 4
  Focus = "all"
  EmitOn = FALSE
VIEW View
INVARIANT QuadratureSum
INVARIANT KIsMultipleOfFour
PROPERTY FirstNoiseSetsParams
PROPERTY LaterNoiseReestimates
PROPERTY ZeroDataResets
PROPERTY SignalLeavesEstimate
PROPERTY UpdateKeepsRealised
PROPERTY AddNoiseAddsInQuadrature
CHECK_DEADLOCK FALSE
