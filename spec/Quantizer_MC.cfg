SPECIFICATION Spec
CONSTANTS
  MaxCalls = 6
  EmitOn = FALSE
  BitsSet = {2, 3, 4, 8}
  PeriodSet <- PeriodSetAll
  KSet = {1, 3}
  TMSet <- TMSetAll
VIEW View
INVARIANT InRange
INVARIANT Monotone
INVARIANT RefreshSchedule
INVARIANT CachedFromRefreshCall
INVARIANT ZeroVariance
CHECK_DEADLOCK FALSE
