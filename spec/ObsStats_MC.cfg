SPECIFICATION Spec
CONSTANTS
  MaxN = 7
  EmitOn = FALSE
INVARIANT OneEntryPerWindow
INVARIANT EntryCounts
INVARIANT EntryOrder
INVARIANT AcfBounded
CHECK_DEADLOCK TRUE
