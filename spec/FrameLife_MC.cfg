SPECIFICATION Spec
CONSTANTS
  MaxOps = 3
  MaxObjs = 3
  MaxCreate = 1
  Focus = "all"
  World = 8
  EmitOn = FALSE
VIEW View
INVARIANT SaveLoadFaithful
INVARIANT Row0Registered
INVARIANT RowsShiftMonotonically
PROPERTY DerivedIsCopy
PROPERTY DerivedKeepMeta
CHECK_DEADLOCK FALSE
