SPECIFICATION Spec
CONSTANTS
  BSet = {8, 16}
  LSet = {8, 16}
  EmitOn = TRUE
CHECK_DEADLOCK FALSE
