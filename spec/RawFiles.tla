------------------------------ MODULE RawFiles ------------------------------
(***************************************************************************)
(* GUPPI RAW framing (C04) and the library's header / block-count readers. *)
(* A directory holds files stem.0000.raw, stem.0001.raw, ...; a file is a   *)
(* sequence of blocks; a block is `cards` 80-byte cards (the last is END),  *)
(* zero padding up to the next multiple of 512 bytes iff DIRECTIO is        *)
(* non-zero, then BLOCSIZE data bytes.  The readers are modelled by their   *)
(* mechanism (fixed-size reads until end of file, "the last file" of a      *)
(* listing) and compared with the structural truth for every listing order. *)
(***************************************************************************)
EXTENDS Integers, Sequences, FiniteSets, TLC, Json

CONSTANTS CardsSet, MaxFiles, BpfSet, EmitOn

VARIABLES dir,       \* [cards, dio ("absent" | "zero" | "one"), blocsize, bpf, nfiles, last (blocks in last file)]
          listing,   \* the order in which the file system lists the files (a permutation of 0..nfiles-1)
          phase, hist

vars == <<dir, listing, phase, hist>>

CardsAll == (16..79) \cup {127, 128, 129, 160, 200, 257}   \* two full periods of the 32-card alignment cycle, and long
                                                           \* headers around and beyond 128 / 256 cards (template + many user cards)

Pad(cards, dio) == IF dio = "one" THEN (512 - ((80 * cards) % 512)) % 512 ELSE 0
HeaderBytes(cards, dio) == 80 * cards + Pad(cards, dio)
BlockBytes(d) == HeaderBytes(d.cards, d.dio) + d.blocsize
BlocksIn(d, i) == IF i = d.nfiles - 1 THEN d.last ELSE d.bpf          \* structural truth
FileBytes(d, i) == BlocksIn(d, i) * BlockBytes(d)
TotalTruth(d) == d.bpf * (d.nfiles - 1) + d.last

Perms(n) == {p \in [1..n -> 0..n - 1] : \A i, j \in 1..n : i # j => p[i] # p[j]}

Init == /\ dir \in {d \in [cards : CardsSet, dio : {"absent", "zero", "one"}, blocsize : {64, 512}, bpf : BpfSet,
                          nfiles : 1..MaxFiles, last : BpfSet \cup {1, 2}] : d.last <= d.bpf}
        /\ listing \in Perms(dir.nfiles)
        /\ phase = "written" /\ hist = <<>>

(* reader mechanisms *)
CeilDiv(a, b) == (a + b - 1) \div b
(* get_blocks_in_file: header size from the card count (padded iff DIRECTIO non-zero) + BLOCSIZE, read until EOF *)
ReaderBlocksInFile(d, i) == CeilDiv(FileBytes(d, i), HeaderBytes(d.cards, d.dio) + d.blocsize)
ReaderBlocksPerFile(d) == ReaderBlocksInFile(d, 0)
(* get_total_blocks: blocks_per_file * (n - 1) + blocks of the last file BY NAME, whatever the listing order *)
MaxOf(S) == CHOOSE x \in S : \A y \in S : y <= x
ReaderTotalBlocks(d, l) ==
    IF Len(l) = 1 THEN ReaderBlocksPerFile(d)
    ELSE ReaderBlocksPerFile(d) * (Len(l) - 1) + ReaderBlocksInFile(d, MaxOf({l[k] : k \in 1..Len(l)}))
(* from_data: size of the header region skipped before each input block *)
ReaderHeaderSize(d) == HeaderBytes(d.cards, d.dio)

Query ==
    /\ phase = "written"
    /\ phase' = "read"
    /\ hist' = Append(hist, [dir |-> dir, listing |-> listing,
                             pad |-> Pad(dir.cards, dir.dio),
                             blocksInFile |-> [i \in 1..dir.nfiles |-> ReaderBlocksInFile(dir, i - 1)],
                             blocksPerFile |-> ReaderBlocksPerFile(dir),
                             totalBlocks |-> ReaderTotalBlocks(dir, listing),
                             headerSize |-> ReaderHeaderSize(dir)])
    /\ UNCHANGED <<dir, listing>>

Done == /\ EmitOn /\ phase = "read"
        /\ PrintT(ToJson(hist[1]))
        /\ phase' = "done" /\ UNCHANGED <<dir, listing, hist>>

Next == Query \/ Done \/ (phase \in {"read", "done"} /\ (~EmitOn \/ phase = "done") /\ UNCHANGED vars)
Spec == Init /\ [][Next]_vars

-----------------------------------------------------------------------------
(* padding exists iff DIRECTIO is non-zero, brings the header to a multiple of 512, and is absent when already aligned *)
HeaderSizeRule ==
    /\ (dir.dio # "one" => Pad(dir.cards, dir.dio) = 0)
    /\ (dir.dio = "one" => (HeaderBytes(dir.cards, dir.dio) % 512 = 0 /\ Pad(dir.cards, dir.dio) < 512))

(* every reader returns the structural truth *)
ReadersAgreeWithParser ==
    /\ \A i \in 0..dir.nfiles - 1 : ReaderBlocksInFile(dir, i) = BlocksIn(dir, i)
    /\ ReaderBlocksPerFile(dir) = BlocksIn(dir, 0)
    /\ ReaderTotalBlocks(dir, listing) = TotalTruth(dir)

(* ... whatever order the file system lists the files in *)
TotalBlocksListingInvariant ==
    \A l \in Perms(dir.nfiles) : ReaderTotalBlocks(dir, l) = ReaderTotalBlocks(dir, listing)
=============================================================================
