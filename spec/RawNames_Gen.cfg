SPECIFICATION Spec
CONSTANTS
  EmitOn = TRUE
CHECK_DEADLOCK FALSE
