SPECIFICATION Spec
CONSTANTS
  MaxN = 9
  MaxH = 5
  MaxW = 5
  EmitOn = TRUE
CHECK_DEADLOCK FALSE
