SPECIFICATION Spec
CONSTANTS
  FSet = {1, 2, 3, 4, 5, 6, 7, 12}
  TSet = {1, 2, 3, 4, 6, 7, 9, 12}
  LoSet = {0, 3}
  EmitOn = FALSE
INVARIANT StrictlyIncreasing
INVARIANT UniformSpacing
INVARIANT Fch1IsEndpoint
INVARIANT RoundTrip
INVARIANT NearestChannel
INVARIANT TwinAxesEqual
INVARIANT DerivedFromGrid
CHECK_DEADLOCK TRUE
