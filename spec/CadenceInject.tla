--------------------------- MODULE CadenceInject ----------------------------
(***************************************************************************)
(* Cadence.add_signal (C16): for every frame in order, shift its time axis  *)
(* by its start time relative to the cadence's first frame, inject, shift   *)
(* back -- one action per step, so that a user callback raising inside the  *)
(* k-th frame's injection is an ordinary behaviour.  Start times are whole  *)
(* rows (multiples of dt); the signal is the probe family of InjectionMath. *)
(* Also: overwriting start times and consolidation; between two            *)
(* cadence-wide injections the start times may be re-spaced                 *)
(* (overwrite_times with a new slew time) or one frame's start time edited  *)
(* directly (action Retime): the second injection owes the offsets of the   *)
(* start times as they are THEN.                                            *)
(***************************************************************************)
EXTENDS Integers, Sequences, FiniteSets, TLC, Json, InjectionMath

CONSTANTS EmitOn,
          Small,     \* TRUE: a quarter of the signal configurations (quick model check)
          Mix        \* TRUE: only two-round behaviours over the gapped 3-frame cadence with a smeared function path, every
                     \* pair of subsets incl. "direct" (small enough to enumerate on every quick run)

VARIABLES cad,       \* [starts (seq of start rows), T (seq of rows per frame), F, asc]
          sig,       \* signal configuration (InjectionMath record)
          raiseAt,   \* 0 = callbacks never raise; k > 0: the path callback raises while frame k is injected
          sel,       \* which frames the current injection addresses: "all" | "slice" (every second frame) | "tail"
          rounds,    \* number of cadence-wide injections in this behaviour (1 or 2; the callback may raise in the last one)
          round, sels,
          pc, k,
          off,       \* off[i] = rows currently added to frame i's time axis
          contrib,   \* contrib[i] = sequence of row offsets with which frame i was injected
          exc,       \* the exception escaped to the caller
          cad0,      \* the cadence as built (start times before any Retime)
          retime,    \* what happened to the start times between the two injections: -1 nothing, 0 / 3 = overwrite_times with
                     \* that slew time (rows), 7 = the last frame's start time moved 2 rows later by direct assignment
          hist

vars == <<cad, sig, raiseAt, sel, rounds, round, sels, pc, k, off, contrib, exc, cad0, retime, hist>>

Base == [pathForm |-> "fn", tForm |-> "fn", bpForm |-> "fn", iP |-> FALSE, iT |-> FALSE, iF |-> FALSE,
         tsub |-> 2, fsub |-> 2, smear |-> 0, bnd |-> <<>>, p0 |-> 10, slope |-> 2, curv |-> 0, wd |-> 30]
AllSigs == {[Base EXCEPT !.iP = ip, !.iT = it, !.iF = if, !.smear = sm, !.slope = sl, !.tForm = tf, !.tsub = ts]
         : ip \in BOOLEAN, it \in BOOLEAN, if \in BOOLEAN, sm \in {0, 2}, sl \in {2, -1}, tf \in {"fn", "scalar"}, ts \in {2, 3}}
Sigs == {s \in AllSigs : Small => (s.tsub = 2 /\ s.slope = 2)}
Cads == {[starts |-> <<0>>, T |-> <<2>>, F |-> 6, asc |-> TRUE],
         [starts |-> <<0, 2>>, T |-> <<2, 3>>, F |-> 6, asc |-> FALSE],             \* back to back
         [starts |-> <<0, 5, 9>>, T |-> <<2, 3, 2>>, F |-> 6, asc |-> TRUE],        \* gaps
         [starts |-> <<3, 4, 11, 12>>, T |-> <<1, 2, 1, 2>>, F |-> 5, asc |-> FALSE]}
N == Len(cad.starts)
Members == IF sel \in {"all", "direct"} THEN [i \in 1..N |-> i]
           ELSE IF sel = "slice" THEN [i \in 1..(N + 1) \div 2 |-> 2 * i - 1]
           ELSE [i \in 1..N - 1 |-> i + 1]                                          \* cad[1:]
First == Members[1]
(* start time relative to the (sub-)cadence's first frame; "direct" = every frame injected on its own (Frame.add_signal),
   i.e. with its own unshifted time axis *)
Rel(i) == IF sel = "direct" THEN 0 ELSE cad.starts[i] - cad.starts[First]

Init == /\ cad \in (IF Mix THEN {c \in Cads : Len(c.starts) = 3} ELSE Cads)
        /\ sig \in (IF Mix THEN {s \in AllSigs : s.smear = 2 /\ ~s.iT /\ ~s.iF /\ s.tsub = 2 /\ s.slope = 2 /\ s.tForm = "fn"} ELSE Sigs)
        /\ sel \in {"all", "slice", "tail", "direct"} /\ (sel = "tail" => Len(cad.starts) > 1)
        /\ raiseAt \in (IF Mix THEN {0} ELSE 0..Len(cad.starts))
        /\ rounds \in (IF Mix THEN {2} ELSE {1, 2}) /\ round = 1 /\ sels = <<>>
        /\ pc = "idle" /\ k = 0 /\ off = [i \in 1..4 |-> 0] /\ contrib = [i \in 1..4 |-> <<>>]
        /\ exc = FALSE /\ hist = <<>> /\ cad0 = cad /\ retime = -1

Begin == /\ pc = "idle" /\ hist = <<>> /\ round = 1 /\ Len(Members) >= 1 /\ raiseAt <= Len(Members)
         /\ pc' = "shift" /\ k' = 1
         /\ UNCHANGED <<cad, sig, raiseAt, sel, rounds, round, sels, off, contrib, exc, cad0, retime, hist>>

(* a second injection, possibly into another subset (whose first frame, hence every offset, may differ) *)
Begin2 == /\ pc = "between" /\ round = 2
          /\ \E s2 \in {"all", "slice", "tail", "direct"} :
                 /\ (s2 = "tail" => N > 1) /\ sel' = s2
                 /\ raiseAt <= (IF s2 \in {"all", "direct"} THEN N ELSE IF s2 = "slice" THEN (N + 1) \div 2 ELSE N - 1)
          /\ pc' = "shift" /\ k' = 1
          /\ UNCHANGED <<cad, sig, raiseAt, rounds, round, sels, off, contrib, exc, cad0, retime, hist>>

(* declared before use: overwrite_times: frame i starts at the stop time of frame i-1 plus the slew time (rows) *)
RECURSIVE Chain(_, _)
Chain(i, slew) == IF i = 1 THEN cad.starts[1] ELSE Chain(i - 1, slew) + cad.T[i - 1] + slew
Overwritten(slew) == [i \in 1..N |-> Chain(i, slew)]

Retime == /\ pc = "between" /\ round = 2 /\ retime = -1 /\ N > 1
          /\ \E r \in {0, 3, 7} :
                 /\ retime' = r
                 /\ cad' = [cad EXCEPT !.starts = IF r = 7 THEN [cad.starts EXCEPT ![N] = @ + 2] ELSE Overwritten(r)]
          /\ UNCHANGED <<sig, raiseAt, sel, rounds, round, sels, pc, k, off, contrib, exc, cad0, hist>>

Shift == /\ pc = "shift"
         /\ off' = [off EXCEPT ![Members[k]] = @ + Rel(Members[k])]
         /\ pc' = "inject"
         /\ UNCHANGED <<cad, sig, raiseAt, sel, rounds, round, sels, k, contrib, exc, cad0, retime, hist>>

Inject == /\ pc = "inject"
          /\ IF raiseAt = k /\ round = rounds
             THEN exc' = TRUE /\ UNCHANGED contrib                                   \* the callback raises: nothing is added
             ELSE exc' = exc /\ contrib' = [contrib EXCEPT ![Members[k]] = Append(@, off[Members[k]])]
          /\ pc' = "unshift"                                                         \* the shift is undone in either case
          /\ UNCHANGED <<cad, sig, raiseAt, sel, rounds, round, sels, k, off, cad0, retime, hist>>

Unshift == /\ pc = "unshift"
           /\ off' = [off EXCEPT ![Members[k]] = @ - Rel(Members[k])]
           /\ IF exc \/ k = Len(Members)
              THEN /\ k' = k /\ sels' = Append(sels, sel)
                   /\ IF round < rounds THEN pc' = "between" /\ round' = round + 1 ELSE pc' = "finish" /\ round' = round
              ELSE pc' = "shift" /\ k' = k + 1 /\ UNCHANGED <<round, sels>>
           /\ UNCHANGED <<cad, sig, raiseAt, sel, rounds, contrib, exc, cad0, retime, hist>>

AddM(a, b) == [i \in 1..Len(a) |-> [j \in 1..Len(a[i]) |-> a[i][j] + b[i][j]]]
Expected(i) == LET g == [F |-> cad.F, T |-> cad.T[i]] IN
               IF contrib[i] = <<>> THEN <<>>
               ELSE IF Len(contrib[i]) = 1 THEN ReturnedAt(sig, g, contrib[i][1])
               ELSE AddM(ReturnedAt(sig, g, contrib[i][1]), ReturnedAt(sig, g, contrib[i][2]))

Finish == /\ pc = "finish"
          /\ hist' = <<[cad |-> cad0, retime |-> retime, starts2 |-> cad.starts, sig |-> sig, sels |-> sels, raiseAt |-> raiseAt, raised |-> exc,
                        den |-> Den(sig), overwrite0 |-> Overwritten(0), overwrite3 |-> Overwritten(3),
                        frames |-> [i \in 1..N |-> [offsets |-> contrib[i], added |-> Expected(i)]]]>>
          /\ pc' = "idle"
          /\ UNCHANGED <<cad, sig, raiseAt, sel, rounds, round, sels, k, off, contrib, exc, cad0, retime>>

Emit == /\ EmitOn /\ pc = "idle" /\ hist # <<>> /\ Len(hist) = 1
        /\ PrintT(ToJson(hist[1]))
        /\ hist' = Append(hist, hist[1])
        /\ UNCHANGED <<cad, sig, raiseAt, sel, rounds, round, sels, pc, k, off, contrib, exc, cad0, retime>>
Idle == pc = "idle" /\ hist # <<>> /\ (~EmitOn \/ Len(hist) = 2) /\ UNCHANGED vars
Skip == pc = "idle" /\ hist = <<>> /\ ~(Len(Members) >= 1 /\ raiseAt <= Len(Members)) /\ UNCHANGED vars

Next == Begin \/ Begin2 \/ Retime \/ Shift \/ Inject \/ Unshift \/ Finish \/ Emit \/ Idle \/ Skip
Spec == Init /\ [][Next]_vars

-----------------------------------------------------------------------------
(* afterwards -- also when the injection raised part-way -- every frame's time axis is what it was before *)
TsRestoredWhenIdle == pc \in {"idle", "between", "finish"} => \A i \in 1..4 : off[i] = 0
(* a frame is injected with its start time relative to the cadence's first frame, exactly once *)
OffsetIsRelativeStart == (pc \in {"shift", "inject", "unshift"}) =>
                             \A i \in 1..N : (contrib[i] # <<>> /\ \E j \in 1..Len(Members) : Members[j] = i /\ j <= k /\ Len(contrib[i]) = round)
                                                 => contrib[i][Len(contrib[i])] = Rel(i)
AtMostOnce == \A i \in 1..4 : Len(contrib[i]) <= round
(* frames before the raising one received the signal, the raising one and later ones did not *)
RaisePartition ==
    (pc = "idle" /\ hist # <<>> /\ rounds = 1) =>
        \A j \in 1..Len(Members) : (Len(contrib[Members[j]]) = 1) <=> (raiseAt = 0 \/ j < raiseAt)
(* overwriting start times spaces consecutive frames by exactly the slew time *)
SlewExact == \A slew \in {0, 3} : \A i \in 2..N : Overwritten(slew)[i] - (Overwritten(slew)[i - 1] + cad.T[i - 1]) = slew
(* only one frame is shifted at any time *)
OneShiftedAtATime == Cardinality({i \in 1..4 : off[i] # 0}) <= 1
=============================================================================
