SPECIFICATION Spec
CONSTANTS
  BSet = {8, 16}
  LSet = {8, 16}
  EmitOn = FALSE
INVARIANT HeaderLocatesTone
INVARIANT ParamsRoundTrip
INVARIANT ReducerShape
CHECK_DEADLOCK TRUE
