SPECIFICATION Spec
CONSTANTS
  MaxN = 9
  EmitOn = TRUE
CHECK_DEADLOCK FALSE
