SPECIFICATION Spec
CONSTANTS
  EmitOn = FALSE
INVARIANT StemRoundTrip
INVARIANT IndexIsFourDigits
INVARIANT AsBuiltAgreesIffDotFree
CHECK_DEADLOCK TRUE
