------------------------------ MODULE Cadence ------------------------------
(***************************************************************************)
(* setigen.Cadence / OrderedCadence as the state machine it is: a Python   *)
(* list of frame objects (by identity) guarded by a compatibility check,   *)
(* plus (ordered variant) an order string and one "order_label" per frame  *)
(* object.  One action per public list operation; Python index / slice     *)
(* semantics are spelled out.  Times are integers (dt = 1).                *)
(*                                                                         *)
(* Properties: C18 (list semantics, rejection, labels, aggregates) and the *)
(* list/time part of C16 (OverwriteTimes, slew times).                     *)
(***************************************************************************)
EXTENDS Integers, Sequences, FiniteSets, TLC, Json, Randomization, PyList

CONSTANTS MaxLen,      \* longest cadence explored
          MaxOps,      \* operations per behaviour
          IdxSlack,    \* indices range over -(n+IdxSlack) .. n+IdxSlack
          EmitOn,      \* Gen configurations: print each finished behaviour as JSON
          Sample       \* 0: every argument combination (exhaustive); k > 0: a random k-subset per
                       \* operation family (simulation only, keeps the branching factor small)

VARIABLES started,     \* a cadence object exists
          ordered,     \* it is an OrderedCadence
          order,       \* the order string, a sequence of one-letter strings
          frames,      \* the list, a sequence of item ids
          label,       \* item id -> order label or "-"
          t0,          \* item id -> start time (mutated by OverwriteTimes)
          res,         \* outcome of the last operation
          hist         \* observation only: the behaviour so far (hidden by VIEW in _MC)

vars == <<started, ordered, order, frames, label, t0, res, hist>>
View == <<started, ordered, order, frames, label, t0, res>>

-----------------------------------------------------------------------------
(* The object pool.  a,b,c: compatible ascending frames; d: descending frame *)
(* of the same band (same fmin, df, dt, fchans: compatible by the property); *)
(* x*: frames differing in exactly one guarded attribute; y*: the same with   *)
(* a near-miss difference (relative 2^-17); obj: not a frame.                *)
(* Times are in ticks of 2^-17 s so that the near-miss dt is an integer.     *)
Good      == {"a", "b", "c", "d"}
Bad       == {"xdf", "xdt", "xfc", "xfm", "ydf", "ydt", "yfm"}   \* y*: differ by a relative 2^-17 only
AllFrames == Good \cup Bad
NonFrames == {"obj"}
Items     == AllFrames \cup NonFrames

Key(v) == IF v \in Good THEN "k0" ELSE v
TK == 131072
Dt(v) == IF v = "xdt" THEN 2 * TK ELSE IF v = "ydt" THEN TK + 1 ELSE TK
Tch(v) == CASE v = "a" -> 2 [] v = "b" -> 3 [] v = "c" -> 2 [] v = "d" -> 4 [] OTHER -> 2
T0Init == [v \in AllFrames |-> TK * (CASE v = "a" -> 0 [] v = "b" -> 5 [] v = "c" -> 16 [] v = "d" -> 9 [] OTHER -> 1)]

Order0 == <<"A", "B", "A", "C", "A", "D">>
Orders == {<<"A", "B", "A", "B", "A", "B">>, <<"D", "C", "B", "A", "B", "C">>}
Labels == {"A", "B", "C", "D"}

StartLists == {<<>>, <<"a">>, <<"a", "b">>, <<"b", "a", "c">>, <<"a", "b", "c", "d">>,
               <<"d", "a", "d">>, <<"xdf">>, <<"ydf">>, <<"b", "ydt">>, <<"a", "obj", "b">>, <<"a", "xfm">>, <<"obj">>,
               <<"c", "c">>}

-----------------------------------------------------------------------------
(* The guard (Cadence._check) *)
Chk(v, f) == IF v \notin AllFrames THEN "TypeError"
             ELSE IF Len(f) > 0 /\ Key(v) # Key(f[1]) THEN "AttributeError"
             ELSE "ok"

(* Label a frame on insertion at 0-based position p (ordered cadences only) *)
Lab(l, v, p, ord, o) == IF ord /\ l[v] = "-" THEN [l EXCEPT ![v] = o[p + 1]] ELSE l

(* extend = repeated append, stopping at the first rejected element *)
RECURSIVE ExtendFrom(_, _, _, _, _)
ExtendFrom(f, l, lst, ord, o) ==
    IF lst = <<>> THEN [f |-> f, l |-> l, st |-> "ok"]
    ELSE LET v == Head(lst)  e == Chk(v, f) IN
         IF e # "ok" THEN [f |-> f, l |-> l, st |-> e]
         ELSE ExtendFrom(Append(f, v), Lab(l, v, Len(f), ord, o), Tail(lst), ord, o)

-----------------------------------------------------------------------------
(* Aggregate properties, from the member frames *)
RECURSIVE SumT(_)
SumT(f) == IF f = <<>> THEN 0 ELSE Tch(Head(f)) + SumT(Tail(f))
Tstop(t, v) == t[v] + Tch(v) * Dt(v)
Agg(f, t) == IF f = <<>> THEN [empty |-> TRUE]
             ELSE [empty |-> FALSE,
                   tchans |-> SumT(f),
                   obsRange |-> Tstop(t, f[Len(f)]) - t[f[1]],
                   tstart |-> t[f[1]],
                   slews |-> [i \in 1..Len(f) - 1 |-> t[f[i + 1]] - Tstop(t, f[i])]]

Obs(f, l, t, o) == [ids |-> f, labels |-> l, agg |-> Agg(f, t), t0 |-> t, order |-> o]

-----------------------------------------------------------------------------
Active == Len(hist) < MaxOps

Init == /\ started = FALSE /\ ordered = FALSE /\ order = Order0
        /\ frames = <<>> /\ label = [v \in AllFrames |-> "-"] /\ t0 = T0Init
        /\ res = [op |-> "Init", st |-> "ok"] /\ hist = <<>>

Finish(a, f, l, r) ==
    /\ frames' = f /\ label' = l /\ res' = r
    /\ hist' = Append(hist, [act |-> a, res |-> r, obs |-> Obs(f, l, t0, order)])
    /\ UNCHANGED <<started, ordered, order, t0>>

IdxRange == -(Len(frames) + IdxSlack) .. (Len(frames) + IdxSlack)
Room == Len(frames) < MaxLen

(* Cadence(frame_list=lst) / OrderedCadence(frame_list=lst, order=Order0) *)
New(ord, lst) ==
    /\ Active /\ ~started
    /\ LET x == ExtendFrom(<<>>, label, lst, ord, Order0)
           r == [op |-> "New", st |-> x.st]
           a == [name |-> "New", ordered |-> ord, list |-> lst] IN
       /\ started' = (x.st = "ok")          \* a raising constructor yields no object
       /\ ordered' = ord /\ order' = Order0
       /\ frames' = IF x.st = "ok" THEN x.f ELSE <<>>
       /\ label' = x.l                       \* labels given before the failure stay on the frames
       /\ res' = r /\ UNCHANGED t0
       /\ hist' = Append(hist, [act |-> a, res |-> r,
                                obs |-> Obs(IF x.st = "ok" THEN x.f ELSE <<>>, x.l, t0, Order0)])

Insert(i, v) ==
    /\ Active /\ started /\ Room
    /\ LET e == Chk(v, frames)  p == Clamp(i, Len(frames))
           a == [name |-> "Insert", i |-> i, v |-> v] IN
       IF e # "ok" THEN Finish(a, frames, label, [op |-> "Insert", st |-> e])
       ELSE Finish(a, InsertAt(frames, p, v), Lab(label, v, p, ordered, order), [op |-> "Insert", st |-> "ok"])

AppendOp(v) ==
    /\ Active /\ started /\ Room
    /\ LET e == Chk(v, frames)  p == Len(frames)
           a == [name |-> "Append", v |-> v] IN
       IF e # "ok" THEN Finish(a, frames, label, [op |-> "Append", st |-> e])
       ELSE Finish(a, Append(frames, v), Lab(label, v, p, ordered, order), [op |-> "Append", st |-> "ok"])

Extend(lst, iadd) ==
    /\ Active /\ started /\ Len(frames) + Len(lst) <= MaxLen
    /\ LET x == ExtendFrom(frames, label, lst, ordered, order)
           a == [name |-> IF iadd THEN "IAdd" ELSE "Extend", list |-> lst] IN
       Finish(a, x.f, x.l, [op |-> "Extend", st |-> x.st])

SetItem(i, v) ==
    /\ Active /\ started
    /\ LET e == Chk(v, frames)  n == Len(frames)
           a == [name |-> "SetItem", i |-> i, v |-> v] IN
       IF e # "ok" THEN Finish(a, frames, label, [op |-> "SetItem", st |-> e])
       ELSE IF ~InRange(i, n) THEN Finish(a, frames, label, [op |-> "SetItem", st |-> "IndexError"])
       ELSE Finish(a, ReplaceAt(frames, Norm(i, n), v), Lab(label, v, Norm(i, n), ordered, order),
                   [op |-> "SetItem", st |-> "ok"])

DelItem(i) ==
    /\ Active /\ started
    /\ LET n == Len(frames)  a == [name |-> "DelItem", i |-> i] IN
       IF ~InRange(i, n) THEN Finish(a, frames, label, [op |-> "DelItem", st |-> "IndexError"])
       ELSE Finish(a, RemoveAt(frames, Norm(i, n)), label, [op |-> "DelItem", st |-> "ok"])

DelSlice(lo, hi, step) ==
    /\ Active /\ started
    /\ LET a == [name |-> "DelSlice", lo |-> lo, hi |-> hi, step |-> step] IN
       Finish(a, DeletePos(frames, SlicePos(lo, hi, step, Len(frames))), label, [op |-> "DelSlice", st |-> "ok"])

Pop(i) ==       \* i = NoneV: pop() with the default index -1
    /\ Active /\ started
    /\ LET n == Len(frames)  ii == IF i = NoneV THEN -1 ELSE i
           a == [name |-> "Pop", i |-> i] IN
       IF ~InRange(ii, n) THEN Finish(a, frames, label, [op |-> "Pop", st |-> "IndexError"])
       ELSE Finish(a, RemoveAt(frames, Norm(ii, n)), label,
                   [op |-> "Pop", st |-> "ok", val |-> frames[Norm(ii, n) + 1]])

RemoveOp(v) ==
    /\ Active /\ started
    /\ LET k == IndexOf(frames, v, 1)  a == [name |-> "Remove", v |-> v] IN
       IF k < 0 THEN Finish(a, frames, label, [op |-> "Remove", st |-> "ValueError"])
       ELSE Finish(a, RemoveAt(frames, k), label, [op |-> "Remove", st |-> "ok"])

Reverse ==
    /\ Active /\ started
    /\ Finish([name |-> "Reverse"], [j \in 1..Len(frames) |-> frames[Len(frames) + 1 - j]], label,
              [op |-> "Reverse", st |-> "ok"])

Clear ==
    /\ Active /\ started
    /\ Finish([name |-> "Clear"], <<>>, label, [op |-> "Clear", st |-> "ok"])

GetItem(i) ==
    /\ Active /\ started
    /\ LET n == Len(frames)  a == [name |-> "GetItem", i |-> i] IN
       IF ~InRange(i, n) THEN Finish(a, frames, label, [op |-> "GetItem", st |-> "IndexError"])
       ELSE Finish(a, frames, label, [op |-> "GetItem", st |-> "ok", val |-> frames[Norm(i, n) + 1]])

GetSlice(lo, hi, step) ==       \* returns a new cadence of the same class
    /\ Active /\ started
    /\ LET a == [name |-> "GetSlice", lo |-> lo, hi |-> hi, step |-> step] IN
       Finish(a, frames, label,
              [op |-> "GetSlice", st |-> "ok", ids |-> SelectPos(frames, SlicePos(lo, hi, step, Len(frames))),
               ordered |-> ordered])

GetIdx(lst) ==                  \* integer index array (list / tuple / ndarray)
    /\ Active /\ started /\ frames # <<>>
    /\ LET n == Len(frames)  a == [name |-> "GetIdx", list |-> lst] IN
       IF \E j \in 1..Len(lst) : ~InRange(lst[j], n)
       THEN Finish(a, frames, label, [op |-> "GetIdx", st |-> "IndexError"])
       ELSE Finish(a, frames, label,
                   [op |-> "GetIdx", st |-> "ok", ids |-> [j \in 1..Len(lst) |-> frames[Norm(lst[j], n) + 1]],
                    ordered |-> ordered])

GetMask(mask) ==                \* boolean mask of the cadence's length
    /\ Active /\ started /\ frames # <<>> /\ Len(mask) = Len(frames)
    /\ LET a == [name |-> "GetMask", mask |-> mask]
           pos == SelectSeq([j \in 1..Len(frames) |-> j - 1], LAMBDA p : mask[p + 1]) IN
       Finish(a, frames, label, [op |-> "GetMask", st |-> "ok", ids |-> SelectPos(frames, pos), ordered |-> ordered])

ByLabel(L) ==
    /\ Active /\ started /\ ordered
    /\ Finish([name |-> "ByLabel", label |-> L], frames, label,
              [op |-> "ByLabel", st |-> "ok", ids |-> SelectSeq(frames, LAMBDA v : label[v] = L), ordered |-> FALSE])

SetOrder(o) ==
    /\ Active /\ started /\ ordered
    /\ LET n == Len(frames)
           last(v) == CHOOSE k \in 1..n : frames[k] = v /\ \A m \in k + 1..n : frames[m] # v
           l == [v \in AllFrames |-> IF \E k \in 1..n : frames[k] = v THEN o[last(v)] ELSE label[v]]
           r == [op |-> "SetOrder", st |-> "ok"] IN
       /\ order' = o /\ label' = l /\ res' = r
       /\ hist' = Append(hist, [act |-> [name |-> "SetOrder", order |-> o], res |-> r, obs |-> Obs(frames, l, t0, o)])
       /\ UNCHANGED <<started, ordered, frames, t0>>

(* overwrite_times with slew s: frame k starts at the stop time of frame k-1 plus s, sequentially *)
RECURSIVE Overwrite(_, _, _, _)
Overwrite(t, f, k, s) == IF k > Len(f) THEN t
                         ELSE Overwrite([t EXCEPT ![f[k]] = Tstop(t, f[k - 1]) + s], f, k + 1, s)
OverwriteTimes(s) ==
    /\ Active /\ started
    /\ LET t == Overwrite(t0, frames, 2, s)
           r == [op |-> "OverwriteTimes", st |-> "ok"] IN
       /\ t0' = t /\ res' = r
       /\ hist' = Append(hist, [act |-> [name |-> "OverwriteTimes", slew |-> s], res |-> r, obs |-> Obs(frames, label, t, order)])
       /\ UNCHANGED <<started, ordered, order, frames, label>>

SliceBounds == {NoneV} \cup IdxRange
Masks == {m \in [1..Len(frames) -> BOOLEAN] : TRUE}
IdxLists == {<<i>> : i \in IdxRange} \cup {<<i, j>> : i \in {0, -1}, j \in IdxRange}
ExtLists == {<<>>, <<"b">>, <<"c", "a">>, <<"a", "obj">>, <<"xdf", "a">>, <<"d", "xfc", "b">>, <<"b", "yfm">>, <<"ydt", "ydt">>}

Pick(S) == IF Sample = 0 \/ Cardinality(S) <= Sample THEN S ELSE RandomSubset(Sample, S)
SliceArgs == SliceBounds \X SliceBounds \X {1, 2, -1}

Done == /\ EmitOn /\ Len(hist) = MaxOps
        /\ PrintT(ToJson(hist))
        /\ hist' = Append(hist, "done")
        /\ UNCHANGED <<started, ordered, order, frames, label, t0, res>>

Next ==
    \/ Done
    \/ \E ord \in BOOLEAN, lst \in StartLists : New(ord, lst)
    \/ \E x \in Pick(IdxRange \X Items) : Insert(x[1], x[2])
    \/ \E v \in Items : AppendOp(v)
    \/ \E lst \in ExtLists, ia \in BOOLEAN : Extend(lst, ia)
    \/ \E x \in Pick(IdxRange \X Items) : SetItem(x[1], x[2])
    \/ \E i \in IdxRange : DelItem(i)
    \/ \E x \in Pick(SliceArgs) : DelSlice(x[1], x[2], x[3])
    \/ \E i \in IdxRange \cup {NoneV} : Pop(i)
    \/ \E v \in Items : RemoveOp(v)
    \/ Reverse
    \/ Clear
    \/ \E i \in IdxRange : GetItem(i)
    \/ \E x \in Pick(SliceArgs) : GetSlice(x[1], x[2], x[3])
    \/ \E lst \in Pick(IdxLists) : GetIdx(lst)
    \/ \E m \in Pick(Masks) : GetMask(m)
    \/ \E L \in Labels : ByLabel(L)
    \/ \E o \in Orders : SetOrder(o)
    \/ \E s \in {0, 3 * TK} : OverwriteTimes(s)

Spec == Init /\ [][Next]_vars


-----------------------------------------------------------------------------
(* Properties *)
Errors == {"TypeError", "AttributeError", "IndexError", "ValueError"}

TypeOK == /\ frames \in Seq(Items) /\ Len(frames) <= MaxLen
          /\ label \in [AllFrames -> Labels \cup {"-"}]

(* only frames, all agreeing with the first on the guarded attributes *)
Homogeneous == \A i \in 1..Len(frames) : frames[i] \in AllFrames /\ Key(frames[i]) = Key(frames[1])

(* every member of an ordered cadence carries a label *)
OrderedAllLabelled == ordered => \A i \in 1..Len(frames) : label[frames[i]] # "-"

(* an operation that raises leaves list and labels alone (extend/constructor add the prefix before the offender) *)
RejectedNotAdded ==
    [][(res'.st \in Errors /\ res'.op \notin {"Extend", "New"}) => (frames' = frames /\ label' = label)]_vars

(* a rejected element of extend is not added either: the list stays homogeneous, nothing after it is added *)
ExtendAddsPrefix ==
    [][(res'.op = "Extend") => (\E k \in 0..Len(frames') - Len(frames) : Len(frames') = Len(frames) + k
                                  /\ SubSeq(frames', 1, Len(frames)) = frames)]_vars

(* a not-yet-labelled frame receives the label at its insertion position, and only then *)
LabelAtInsertion ==
    [][(res'.op # "SetOrder" /\ (res'.op # "New" \/ res'.st = "ok")) =>
         \A v \in AllFrames : (label[v] = "-" /\ label'[v] # "-") =>
             \E p \in 1..Len(frames') : frames'[p] = v /\ label'[v] = order'[p]
                                        /\ (p > Len(frames) \/ frames[p] # v \/ res'.op \in {"Insert", "SetItem"})]_vars

(* labels are stable: only set_order re-labels *)
LabelStable ==
    [][res'.op # "SetOrder" => \A v \in AllFrames : label[v] # "-" => label'[v] = label[v]]_vars

(* selection never changes the cadence *)
SelectionPure ==
    [][res'.op \in {"GetItem", "GetSlice", "GetIdx", "GetMask", "ByLabel"} =>
         (frames' = frames /\ label' = label /\ t0' = t0)]_vars

(* after overwrite_times every slew equals the requested one (no duplicates in the list) *)
SlewExact ==
    [][(res'.op = "OverwriteTimes" /\ Cardinality({frames[i] : i \in 1..Len(frames)}) = Len(frames)) =>
         \A i \in 1..Len(frames) - 1 :
             \E s \in {0, 3 * TK} : t0'[frames[i + 1]] - Tstop(t0', frames[i]) = s]_vars

=============================================================================
