SPECIFICATION Spec
CONSTANTS
  Family = "forms"
  MaxInj = 1
  EmitOn = TRUE
CHECK_DEADLOCK FALSE
