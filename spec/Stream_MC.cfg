SPECIFICATION Spec
CONSTANTS
  MaxReq = 4
  MaxOps = 4
  T0Set = {0, 6}
  EmitOn = FALSE
VIEW View
INVARIANT Continuity
INVARIANT ClockExact
INVARIANT ResyncAtStart
INVARIANT AntennaClockEqualsStreams
INVARIANT NoiseInOrder
INVARIANT DelayAlignment
INVARIANT BgConsecutive
INVARIANT CacheIsUnusedTail
INVARIANT CacheClearedAtStart
INVARIANT DefaultDelaysAreZero
PROPERTY UpdateNoiseKeepsClock
PROPERTY RefusedLeavesNoTrace
CHECK_DEADLOCK FALSE
