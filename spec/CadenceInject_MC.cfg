SPECIFICATION Spec
CONSTANTS
  Small = TRUE
  Mix = FALSE
  EmitOn = FALSE
INVARIANT TsRestoredWhenIdle
INVARIANT OffsetIsRelativeStart
INVARIANT AtMostOnce
INVARIANT RaisePartition
INVARIANT OneShiftedAtATime
INVARIANT SlewExact
CHECK_DEADLOCK TRUE
