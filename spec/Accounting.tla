----------------------------- MODULE Accounting -----------------------------
(***************************************************************************)
(* Block, length and sample accounting of a RawVoltageBackend (C20) over    *)
(* exact integers and rationals <<num, den>>.  The recording itself (how    *)
(* the samples are drawn, block by block) is Backend.tla; this module fixes *)
(* the closed-form quantities every helper must agree on.                   *)
(***************************************************************************)
EXTENDS Integers, Sequences, FiniteSets, TLC, Json

CONSTANTS RateSet, BSet, TapsSet, NchSet, NantSet, PolsSet, BitsSet, MultSet, BlocksSet, EmitOn

VARIABLES cfg, phase, out
vars == <<cfg, phase, out>>

BPS(c) == (2 * c.pols * c.bits) \div 8                       \* bytes per sample of one channel (both pols)
BlockSize(c) == c.nant * c.nch * c.taps * BPS(c) * c.mult    \* admitted by the constructor: multiple of nant*nch*taps*bps
SPB(c) == BlockSize(c) \div (c.nant * c.nch * BPS(c))        \* samples (spectra) per block
TPB(c) == <<SPB(c) * c.B, c.rate>>                           \* time per block, seconds, as a fraction
SamplesFor(c, n) == n * SPB(c) * c.B                         \* antenna samples of n blocks, without warm-up
Drawn(c, n) == SamplesFor(c, n) + c.taps * c.B               \* + one warm-up window

(* durations (k + r) * time_per_block with r = rn/rd in [0, 1): whole blocks not exceeding the duration *)
Fracs == {<<0, 1>>, <<1, 4>>, <<1, 2>>, <<999, 1000>>, <<99999, 100000>>}   \* the last: a hair short of a block boundary
BlocksFor(k, r) == IF r[1] = 0 THEN {k, k - 1} \cap Nat ELSE {k}      \* on the boundary either way (float rounding)

(* get_block_size for a desired number of fine spectra per block *)
FineCases == {<<2, 4, 1>>, <<1, 8, 3>>, <<4, 2, 2>>}              \* <<tchans_per_block, fftlength, int_factor>>
HelperBlockSize(c, f) == f[1] * f[2] * f[3] * c.nch * c.nant * BPS(c)

Init == /\ cfg \in [rate : RateSet, B : BSet, taps : TapsSet, nch : NchSet, nant : NantSet, pols : PolsSet, bits : BitsSet,
                    mult : MultSet, blocks : BlocksSet]
        /\ cfg.nch <= cfg.B \div 2
        /\ phase = "cfg" /\ out = <<>>

Compute ==
    /\ phase = "cfg"
    /\ out' = [cfg |-> cfg, blockSize |-> BlockSize(cfg), spb |-> SPB(cfg), tpb |-> TPB(cfg),
               total |-> SamplesFor(cfg, cfg.blocks), drawn |-> Drawn(cfg, cfg.blocks),
               pktstop |-> cfg.blocks * SPB(cfg),
               obsLength |-> <<cfg.blocks * SPB(cfg) * cfg.B, cfg.rate>>,
               \* durations also of long recordings (k * rd stays below 2^31)
               durations |-> [x \in {<<k, r>> : k \in {1, 2, cfg.blocks + 2, 5000, 20000}, r \in Fracs} |->
                                 [k |-> x[1], rn |-> x[2][1], rd |-> x[2][2], blocks |-> BlocksFor(x[1], x[2])]],   \* duration = (k + rn/rd) * tpb
               fine |-> [f \in FineCases |-> [blockSize |-> HelperBlockSize(cfg, f), spb |-> f[1] * f[2] * f[3]]]]
    /\ phase' = "done" /\ UNCHANGED cfg

Emit == /\ EmitOn /\ phase = "done" /\ PrintT(ToJson(out)) /\ phase' = "emitted" /\ UNCHANGED <<cfg, out>>
Idle == phase \in {"done", "emitted"} /\ (~EmitOn \/ phase = "emitted") /\ UNCHANGED vars
Next == Compute \/ Emit \/ Idle
Spec == Init /\ [][Next]_vars

-----------------------------------------------------------------------------
MulFrac(n, a) == <<n * a[1], a[2]>>

(* samples-per-block = block_size / (antennas * channels * bytes-per-sample), a whole number of PFB windows *)
SpbExact == /\ SPB(cfg) * cfg.nant * cfg.nch * BPS(cfg) = BlockSize(cfg)
            /\ SPB(cfg) % cfg.taps = 0

(* a requested duration (k + rn/rd) * tpb records n whole blocks: n <= k + rn/rd < n + 1 (boundary: either neighbour) *)
DurationBlocks ==
    phase # "cfg" =>
        \A x \in DOMAIN out.durations :
            LET d == out.durations[x] IN
            \A n \in d.blocks :
                /\ (d.rn # 0 => (n * d.rd <= d.k * d.rd + d.rn /\ d.k * d.rd + d.rn < (n + 1) * d.rd))
                /\ (d.rn = 0 => (n = d.k \/ n = d.k - 1))

(* totals are consistent: drawn = total + warm-up; PKTSTOP counts spectra; obs length = blocks * tpb *)
TotalsConsistent ==
    phase # "cfg" =>
        /\ out.drawn = out.total + cfg.taps * cfg.B
        /\ out.total = out.pktstop * cfg.B
        /\ out.obsLength = MulFrac(cfg.blocks, TPB(cfg))

(* the block size helper yields a block size the constructor admits when the spectra count is a multiple of taps *)
HelperBlockSizeAdmitted ==
    phase # "cfg" =>
        \A f \in FineCases : out.fine[f].blockSize = out.fine[f].spb * cfg.nant * cfg.nch * BPS(cfg)
=============================================================================
