SPECIFICATION Spec
CONSTANTS
  Family = "forms"
  MaxInj = 1
  EmitOn = FALSE
INVARIANT ReturnedZeroOutsideBounds
INVARIANT BoundedIsRestriction
INVARIANT ErrorsContributeNothing
INVARIANT ScalarEqualsConstantFn
INVARIANT ArrayEqualsFnOnGrid
INVARIANT Smear1EqualsUnsmeared
INVARIANT NonNegative
CHECK_DEADLOCK TRUE
