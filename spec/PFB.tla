-------------------------------- MODULE PFB ---------------------------------
(***************************************************************************)
(* PolyphaseFilterbank.channelize (C08): the tail cache that makes chunked  *)
(* calls contiguous, and the FIR + DFT itself in exact Gaussian-integer     *)
(* arithmetic for B in {2, 4} branches with an integer window.              *)
(*                                                                          *)
(* The voltage stream of object o is cut into rows of B samples; row r,     *)
(* branch b holds Val(o, r, b) (+ i ValI(o, r, b) for complex input).       *)
(* Spectrum n is the DFT over b of  SUM_tau H[tau][b] * row[n+tau][b]; the   *)
(* spec keeps the factor sqrt(B) out (outputs are times sqrt(B)).           *)
(***************************************************************************)
EXTENDS Integers, Sequences, FiniteSets, TLC, Json

CONSTANTS MaxWin,      \* windows (of taps rows) available per object stream
          MaxOps, EmitOn,
          TapsSet, BSet

VARIABLES cfg,         \* [taps, B, cplx]
          cache,       \* cache[o] = [set, rows] : last taps row ids of everything fed so far
          fed,         \* fed[o] = rows fed with cache=True so far
          emitted,     \* emitted[o] = first-row ids of all spectra returned by cached calls
          last,        \* spectra returned by the last call
          hist

vars == <<cfg, cache, fed, emitted, last, hist>>
View == <<cfg, cache, fed, emitted, last>>

Objs == {1, 2}

Val(o, r, b)  == ((r * 7 + b * 3 + o * 5 + r * r) % 7) - 3
ValI(o, r, b) == ((r * 5 + b * 2 + o * 3 + 1) % 5) - 2
H(tau, b)     == 1 + tau * 3 + b * 2 - tau * b          \* an integer window without symmetry

F(sel, o, r, b) == IF sel = 1 THEN Val(o, r, b) ELSE ValI(o, r, b)

RECURSIVE SumTau(_, _, _, _, _)
SumTau(sel, o, n, b, tau) ==
    IF tau < 0 THEN 0 ELSE H(tau, b) * F(sel, o, n + tau, b) + SumTau(sel, o, n, b, tau - 1)

(* branch sums of spectrum n (real input selected by sel) *)
S(sel, o, n, b) == SumTau(sel, o, n, b, cfg.taps - 1)

(* DFT over the branch index, lower half of the channels, as <<re, im>> pairs; times sqrt(B) *)
Dft(sel, o, n) ==
    IF cfg.B = 2 THEN << <<S(sel, o, n, 0) + S(sel, o, n, 1), 0>> >>
    ELSE << <<S(sel, o, n, 0) + S(sel, o, n, 1) + S(sel, o, n, 2) + S(sel, o, n, 3), 0>>,
            <<S(sel, o, n, 0) - S(sel, o, n, 2), S(sel, o, n, 3) - S(sel, o, n, 1)>> >>

(* complex input is channelised as real part plus i times imaginary part *)
Spectrum(o, n) ==
    IF ~cfg.cplx THEN Dft(1, o, n)
    ELSE LET a == Dft(1, o, n)  c == Dft(2, o, n) IN
         [k \in 1..Len(a) |-> <<a[k][1] - c[k][2], a[k][2] + c[k][1]>>]

Init == /\ cfg \in [taps : TapsSet, B : BSet, cplx : BOOLEAN]
        /\ cache = [o \in Objs |-> [set |-> FALSE, rows |-> <<>>]]
        /\ fed = [o \in Objs |-> 0]
        /\ emitted = [o \in Objs |-> <<>>]
        /\ last = <<>> /\ hist = <<>>

Active == Len(hist) < MaxOps

(* channelize(x, cache=True) with the next w windows of o's stream *)
ChannelizeCached(o, w) ==
    /\ Active /\ fed[o] + w * cfg.taps <= MaxWin * cfg.taps
    /\ LET new == [j \in 1..w * cfg.taps |-> fed[o] + j - 1]
           x == (IF cache[o].set THEN cache[o].rows ELSE <<>>) \o new
           W == Len(x) \div cfg.taps
           nout == (W - 1) * cfg.taps
           starts == [j \in 1..nout |-> x[j]]
           sp == [j \in 1..nout |-> [row |-> x[j], ch |-> Spectrum(o, x[j])]] IN
       /\ cache' = [cache EXCEPT ![o] = [set |-> TRUE, rows |-> SubSeq(x, Len(x) - cfg.taps + 1, Len(x))]]
       /\ fed' = [fed EXCEPT ![o] = @ + w * cfg.taps]
       /\ emitted' = [emitted EXCEPT ![o] = @ \o starts]
       /\ last' = sp
       /\ hist' = Append(hist, [act |-> [name |-> "Channelize", o |-> o, w |-> w, cache |-> TRUE, from |-> fed[o]],
                                out |-> sp, clen |-> [p \in Objs |-> IF cache'[p].set THEN Len(cache'[p].rows) ELSE -1]])
       /\ UNCHANGED cfg

(* channelize(x, cache=False): a stateless call on rows from.. of o's stream *)
ChannelizeOneShot(o, from, w) ==
    /\ Active /\ w >= 2 /\ from + w * cfg.taps <= MaxWin * cfg.taps
    /\ LET x == [j \in 1..w * cfg.taps |-> from + j - 1]
           nout == (w - 1) * cfg.taps
           sp == [j \in 1..nout |-> [row |-> x[j], ch |-> Spectrum(o, x[j])]] IN
       /\ last' = sp
       /\ hist' = Append(hist, [act |-> [name |-> "Channelize", o |-> o, w |-> w, cache |-> FALSE, from |-> from],
                                out |-> sp, clen |-> [p \in Objs |-> IF cache[p].set THEN Len(cache[p].rows) ELSE -1]])
       /\ UNCHANGED <<cfg, cache, fed, emitted>>

ResetCache(o) ==
    /\ Active /\ cache[o].set
    /\ cache' = [cache EXCEPT ![o] = [set |-> FALSE, rows |-> <<>>]]
    /\ fed' = [fed EXCEPT ![o] = 0] /\ emitted' = [emitted EXCEPT ![o] = <<>>]
    /\ last' = <<>>
    /\ hist' = Append(hist, [act |-> [name |-> "Reset", o |-> o], out |-> <<>>,
                             clen |-> [p \in Objs |-> IF cache'[p].set THEN Len(cache'[p].rows) ELSE -1]])
    /\ UNCHANGED cfg

Done == /\ EmitOn /\ Len(hist) = MaxOps
        /\ PrintT(ToJson([cfg |-> cfg, steps |-> hist]))
        /\ hist' = Append(hist, [act |-> [name |-> "Done"]])
        /\ UNCHANGED <<cfg, cache, fed, emitted, last>>

Next == \/ Done
        \/ \E o \in Objs, w \in 1..MaxWin : ChannelizeCached(o, w)
        \/ \E o \in Objs, w \in 2..MaxWin, from \in {0, 1} : ChannelizeOneShot(o, from * cfg.taps, w)
        \/ \E o \in Objs : ResetCache(o)

Spec == Init /\ [][Next]_vars

-----------------------------------------------------------------------------
(* chunked feeding returns spectra 0, 1, 2, ... none missing or repeated; all but the last taps rows are used up *)
NoGapNoRepeat ==
    \A o \in Objs : /\ \A j \in 1..Len(emitted[o]) : emitted[o][j] = j - 1
                    /\ (fed[o] > 0 => Len(emitted[o]) = fed[o] - cfg.taps)

(* the cache is exactly the last taps rows fed *)
CacheIsTail ==
    \A o \in Objs : cache[o].set => cache[o].rows = [j \in 1..cfg.taps |-> fed[o] - cfg.taps + j - 1]

(* the spectra of chunked calls are those of the one-shot definition (same function of the start row) *)
ChunkingInvariant ==
    \A j \in 1..Len(last) : \A o \in Objs :
        (hist # <<>> /\ hist[Len(hist)].act.name = "Channelize" /\ hist[Len(hist)].act.o = o)
            => last[j].ch = Spectrum(o, last[j].row)

(* a call on one filterbank object never touches another's state *)
ObjectsIndependent ==
    [][\A o \in Objs : (hist' # hist /\ hist'[Len(hist')].act.name # "Done" /\ hist'[Len(hist')].act.o # o)
          => (cache'[o] = cache[o] /\ fed'[o] = fed[o] /\ emitted'[o] = emitted[o])]_vars

(* a stateless call leaves every cache alone *)
OneShotIsPure ==
    [][(hist' # hist /\ hist'[Len(hist')].act.name = "Channelize" /\ ~hist'[Len(hist')].act.cache)
          => cache' = cache]_vars
=============================================================================
