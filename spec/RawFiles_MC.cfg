SPECIFICATION Spec
CONSTANTS
  CardsSet <- CardsAll
  MaxFiles = 3
  BpfSet = {1, 2, 3, 9}
  EmitOn = FALSE
INVARIANT HeaderSizeRule
INVARIANT ReadersAgreeWithParser
INVARIANT TotalBlocksListingInvariant
CHECK_DEADLOCK TRUE
