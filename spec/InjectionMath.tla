--------------------------- MODULE InjectionMath ----------------------------
(***************************************************************************)
(* Constant-level operators shared by Injection.tla (C01, C06) and          *)
(* CadenceInject.tla (C16): the integer probe family and the documented      *)
(* per-component average of add_signal.  See Injection.tla for the units.    *)
(* Row indices may carry an offset (rows from the start of a cadence).       *)
(***************************************************************************)
EXTENDS Integers, Sequences, FiniteSets

FQ == 24
TQ == 6
Abs(x) == IF x < 0 THEN -x ELSE x
Max2(a, b) == IF a > b THEN a ELSE b
Min2(a, b) == IF a < b THEN a ELSE b

SumTo(g(_), n) == LET S[k \in 0..n] == IF k = 0 THEN 0 ELSE S[k - 1] + g(k - 1) IN S[n]      \* sum of g(0..n-1)

TP(tau) == 2 + (tau % 3)
P(c, tau) == c.p0 + c.slope * tau + c.curv * tau * tau
BP(c, f) == IF c.bpForm = "none" THEN 1 ELSE IF c.bpForm = "scalar" THEN 3 ELSE 1 + ((f \div 6) % 2)

TSub(c) == c.tsub
NS(c) == IF c.smear = 0 THEN 1 ELSE c.smear
FS(c) == IF c.iF THEN c.fsub ELSE 1
CD(c) == TSub(c) * NS(c)                                  \* denominator of signal centres

(* path value of row i (rows 0..T; row T only used for smearing), numerator over TSub *)
PathNum(c, i) ==
    IF c.pathForm = "scalar" THEN TSub(c) * c.p0
    ELSE IF c.pathForm \in {"arr", "arrExt"} THEN TSub(c) * P(c, i * TQ)        \* arrays are used as given
    ELSE IF c.iP THEN LET g(k) == P(c, i * TQ + k * (TQ \div TSub(c))) IN SumTo(g, TSub(c))
    ELSE TSub(c) * P(c, i * TQ)
(* time profile of row i, numerator over TSub *)
TNum(c, i) ==
    IF c.tForm = "scalar" THEN TSub(c) * 5
    ELSE IF c.tForm = "arr" THEN TSub(c) * TP(i * TQ)
    ELSE IF c.iT THEN LET g(k) == TP(i * TQ + k * (TQ \div TSub(c))) IN SumTo(g, TSub(c))
    ELSE TSub(c) * TP(i * TQ)
(* centre of copy k of row i, numerator over CD *)
Centre(c, i, k) == IF c.smear = 0 THEN PathNum(c, i)
                   ELSE PathNum(c, i) * NS(c) + k * (PathNum(c, i + 1) - PathNum(c, i))
(* frequency profile at frequency f (units u) for a centre cn / CD, numerator over CD: an ASYMMETRIC triangle (slope 1
   above the centre, slope 2 below it), so that f and the centre cannot be exchanged unnoticed *)
FPn(c, f, cn) == LET d == f * CD(c) - cn IN
                 IF d >= 0 THEN Max2(0, c.wd * CD(c) - d) ELSE Max2(0, c.wd * CD(c) + 2 * d)
(* pixel (i, j): numerator over Den(c) *)
Pix(c, i, j) ==
    LET perK(k) == LET perM(m) == LET f == j * FQ + m * (FQ \div FS(c)) IN FPn(c, f, Centre(c, i, k)) * BP(c, f)
                   IN SumTo(perM, FS(c))
    IN  TNum(c, i) * SumTo(perK, NS(c))
Den(c) == TSub(c) * CD(c) * NS(c) * FS(c)

(* bounding range given as channel indices [b0, b1) before clipping; "none" = whole band *)
Lo(c, F) == IF c.bnd = <<>> THEN 0 ELSE Min2(Max2(c.bnd[1], 0), F)
Hi(c, F) == IF c.bnd = <<>> THEN F ELSE Max2(Min2(Max2(c.bnd[2], 0), F), Lo(c, F))

(* outcome of one injection *)
Status(c) ==
    IF c.tForm = "bad" \/ c.pathForm = "bad" \/ c.bpForm = "bad" THEN "TypeError"
    ELSE IF c.tForm = "badlen" \/ c.pathForm = "badlen" \/ c.bpForm = "badlen" THEN "ValueError"
    ELSE IF c.pathForm = "arrExt" /\ c.smear = 0 THEN "ValueError"     \* T+1 values are only meaningful for smearing
    ELSE IF c.pathForm = "arr" /\ c.smear # 0 THEN "ValueError"        \* smearing needs the T+1-th value
    ELSE "ok"

Returned(c, g) == [i \in 1..g.T |-> [j \in 1..g.F |->
                      IF Status(c) = "ok" /\ j - 1 >= Lo(c, g.F) /\ j - 1 < Hi(c, g.F) THEN Pix(c, i - 1, j - 1) ELSE 0]]


(* the same signal evaluated r rows later (Cadence.add_signal: frame times shifted by its relative start time) *)
ReturnedAt(c, g, r) == [i \in 1..g.T |-> [j \in 1..g.F |->
                          IF Status(c) = "ok" /\ j - 1 >= Lo(c, g.F) /\ j - 1 < Hi(c, g.F) THEN Pix(c, i - 1 + r, j - 1) ELSE 0]]
=============================================================================
