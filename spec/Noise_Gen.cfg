SPECIFICATION Spec
CONSTANTS
  MaxOps = 5
  EmitOn = TRUE
CHECK_DEADLOCK FALSE
