SPECIFICATION Spec
CONSTANTS
  MaxOps = 5
  Focus = "all"
  EmitOn = TRUE
CHECK_DEADLOCK FALSE
