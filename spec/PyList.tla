------------------------------- MODULE PyList -------------------------------
(***************************************************************************)
(* Python list index / slice semantics over TLA+ sequences (positions are   *)
(* 0-based as in Python; sequences 1-based).  Shared by Cadence.tla (model  *)
(* checking, spec -> code replay) and CadenceTrace.tla (trace validation).  *)
(***************************************************************************)
EXTENDS Integers, Sequences

NoneV == 99      \* Python None as a slice bound

Max2(x, y) == IF x > y THEN x ELSE y
Min2(x, y) == IF x < y THEN x ELSE y

-----------------------------------------------------------------------------
(* Python list semantics *)
Norm(i, n)   == IF i < 0 THEN i + n ELSE i
InRange(i, n) == Norm(i, n) >= 0 /\ Norm(i, n) < n
Clamp(i, n)  == IF i < 0 THEN Max2(0, i + n) ELSE Min2(i, n)        \* list.insert position

InsertAt(s, p, v) == SubSeq(s, 1, p) \o <<v>> \o SubSeq(s, p + 1, Len(s))   \* p is 0-based
RemoveAt(s, p)    == SubSeq(s, 1, p) \o SubSeq(s, p + 2, Len(s))           \* p is 0-based
ReplaceAt(s, p, v) == [s EXCEPT ![p + 1] = v]

SliceStart(lo, step, n) ==
    LET lower == IF step > 0 THEN 0 ELSE -1
        upper == IF step > 0 THEN n ELSE n - 1
    IN  IF lo = NoneV THEN (IF step > 0 THEN lower ELSE upper)
        ELSE IF lo < 0 THEN Max2(lo + n, lower) ELSE Min2(lo, upper)
SliceStop(hi, step, n) ==
    LET lower == IF step > 0 THEN 0 ELSE -1
        upper == IF step > 0 THEN n ELSE n - 1
    IN  IF hi = NoneV THEN (IF step > 0 THEN upper ELSE lower)
        ELSE IF hi < 0 THEN Max2(hi + n, lower) ELSE Min2(hi, upper)
SlicePos(lo, hi, step, n) ==           \* 0-based positions selected by [lo:hi:step]
    LET a == SliceStart(lo, step, n)
        b == SliceStop(hi, step, n)
        cnt == IF step > 0 THEN (IF b > a THEN (b - a + step - 1) \div step ELSE 0)
               ELSE (IF a > b THEN (a - b - step - 1) \div (0 - step) ELSE 0)
    IN  [j \in 1..cnt |-> a + (j - 1) * step]

SelectPos(s, pos) == [j \in 1..Len(pos) |-> s[pos[j] + 1]]
DeletePos(s, pos) ==
    LET keep == {p \in 0..Len(s) - 1 : \A j \in 1..Len(pos) : pos[j] # p}
        F[p \in -1..Len(s) - 1] == IF p = -1 THEN <<>> ELSE IF p \in keep THEN Append(F[p - 1], s[p + 1]) ELSE F[p - 1]
    IN  F[Len(s) - 1]

RECURSIVE IndexOf(_, _, _)
IndexOf(s, v, k) == IF k > Len(s) THEN -1 ELSE IF s[k] = v THEN k - 1 ELSE IndexOf(s, v, k + 1)

=============================================================================
