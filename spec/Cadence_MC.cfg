\* exhaustive check of the Cadence design; hist hidden by the VIEW
SPECIFICATION Spec
CONSTANTS
  MaxLen = 4
  MaxOps = 3
  IdxSlack = 1
  EmitOn = FALSE
  Sample = 0
VIEW View
INVARIANT TypeOK
INVARIANT Homogeneous
INVARIANT OrderedAllLabelled
PROPERTY RejectedNotAdded
PROPERTY ExtendAddsPrefix
PROPERTY LabelAtInsertion
PROPERTY LabelStable
PROPERTY SelectionPure
PROPERTY SlewExact
CHECK_DEADLOCK FALSE
