------------------------------ MODULE ObsStats -------------------------------
(***************************************************************************)
(* Extension module (not one of the listed properties): statistics derived  *)
(* from observations and from integrated frames, over exact integers.       *)
(*                                                                         *)
(* 1. get_parameter_distributions / get_mean_distribution: an observation   *)
(*    file of N channels x T rows is cut into windows of F channels with    *)
(*    shift s (the window rule of Split.tla, in file order) and every       *)
(*    window contributes ONE entry: mean, deviation and minimum of its      *)
(*    pixels (pixel values are a small integer pattern whose spread is too  *)
(*    small for the 3-sigma clip to remove anything).  Sums, sums of        *)
(*    squares and minima are integers here.                                 *)
(* 2. TimeSeries.autocorr: lag-k autocorrelation of the mean-removed series *)
(*    divided by the lag-0 value (by the lag-1 value when the zero-lag      *)
(*    spike is "removed"); as integer numerators over a common denominator: *)
(*    with S the sum and n the length, (n x_t - S) are integers.            *)
(* 3. TimeSeries / Spectrum.normalize: division by the mean (the result has  *)
(*    mean 1): n * x_t / S.                                                 *)
(***************************************************************************)
EXTENDS Integers, Sequences, FiniteSets, TLC, Json

CONSTANTS MaxN, EmitOn

VARIABLES cfg, phase, out
vars == <<cfg, phase, out>>

Pix(r, c) == 100 + ((3 * r + 5 * c + ((r * c) % 4)) % 7)           \* row r, file column c (0-based)

RECURSIVE SumF(_, _, _)
SumF(f(_), a, b) == IF a > b THEN 0 ELSE f(a) + SumF(f, a + 1, b)

Windows(c) == LET n == (c.N - c.F) \div c.s + 1 IN [i \in 1..n |-> [lo |-> (i - 1) * c.s, hi |-> (i - 1) * c.s + c.F]]
Rows(c) == IF c.Tsel = 0 THEN c.T ELSE c.Tsel

PieceStats(c, w) ==
    LET cells == {<<r, k>> : r \in 0..Rows(c) - 1, k \in w.lo..w.hi - 1}
        rowSum(r) == LET g(k) == Pix(r, k) IN SumF(g, w.lo, w.hi - 1)
        rowSq(r) == LET g(k) == Pix(r, k) * Pix(r, k) IN SumF(g, w.lo, w.hi - 1)
    IN [count |-> Cardinality(cells),
        sum |-> SumF(rowSum, 0, Rows(c) - 1),
        sumsq |-> SumF(rowSq, 0, Rows(c) - 1),
        min |-> CHOOSE m \in {Pix(x[1], x[2]) : x \in cells} : \A x \in cells : m <= Pix(x[1], x[2])]

Series(c) == [t \in 1..c.T |-> LET g(k) == Pix(t - 1, k) IN SumF(g, 0, c.N - 1)]      \* per-row sums (timeseries, mode sum)
SerSum(x) == LET g(t) == x[t] IN SumF(g, 1, Len(x))
(* numerators of the lag-k autocovariance times n^2 *)
Acov(x, k) == LET n == Len(x)  S == SerSum(x)  g(t) == (n * x[t] - S) * (n * x[t + k] - S) IN SumF(g, 1, n - k)

Init == /\ cfg \in {c \in [N : 2..MaxN, F : 1..MaxN, s : 1..MaxN, T : {3, 4}, Tsel : {0, 2}] : c.F <= c.N}
        /\ phase = "cfg" /\ out = <<>>

Compute ==
    /\ phase = "cfg"
    /\ LET x == Series(cfg) IN
       out' = [cfg |-> cfg,
               pieces |-> [i \in 1..Len(Windows(cfg)) |-> PieceStats(cfg, Windows(cfg)[i])],
               series |-> x, seriesSum |-> SerSum(x),
               acov |-> [k \in 0..cfg.T - 1 |-> Acov(x, k)]]
    /\ phase' = "done" /\ UNCHANGED cfg
Emit == /\ EmitOn /\ phase = "done" /\ PrintT(ToJson(out)) /\ phase' = "emitted" /\ UNCHANGED <<cfg, out>>
Idle == phase \in {"done", "emitted"} /\ (~EmitOn \/ phase = "emitted") /\ UNCHANGED vars
Next == Compute \/ Emit \/ Idle
Spec == Init /\ [][Next]_vars

-----------------------------------------------------------------------------
(* one table entry per window, windows as in Split.tla *)
OneEntryPerWindow == phase # "cfg" => Len(out.pieces) = (cfg.N - cfg.F) \div cfg.s + 1
(* every entry is computed from exactly the pixels of its window *)
EntryCounts == phase # "cfg" => \A i \in 1..Len(out.pieces) : out.pieces[i].count = cfg.F * Rows(cfg)
(* minimum <= mean: count * min <= sum; variance >= 0: count * sumsq >= sum^2 *)
EntryOrder == phase # "cfg" => \A i \in 1..Len(out.pieces) :
                  /\ out.pieces[i].count * out.pieces[i].min <= out.pieces[i].sum
                  /\ out.pieces[i].count * out.pieces[i].sumsq >= out.pieces[i].sum * out.pieces[i].sum
(* the autocorrelation is bounded by its zero-lag value (Cauchy-Schwarz) *)
Abs(v) == IF v < 0 THEN 0 - v ELSE v
AcfBounded == phase # "cfg" => \A k \in 0..cfg.T - 1 : Abs(out.acov[k]) <= out.acov[0]
=============================================================================
