----------------------------- MODULE InputMode ------------------------------
(***************************************************************************)
(* Injection onto existing RAW (C14): RawVoltageBackend.from_data + record. *)
(* The input recording is `nfiles` files of `bpf` blocks (the last holding   *)
(* `last`); output block k must be built from input block k, read at a block *)
(* boundary of input file k div bpf; at most the input's blocks are written; *)
(* the deviation handed to the requantiser for the synthetic part is the     *)
(* filterbank's cached unit-noise deviation times the digitiser target       *)
(* deviation (digitiser on) or times 1 (off) -- at every sub-block of every  *)
(* block, which requires the cached value itself to stay untouched.          *)
(***************************************************************************)
EXTENDS Integers, Sequences, FiniteSets, TLC, Json

CONSTANTS BpfSet, FilesSet, ReqSet, SubSet, EmitOn

VARIABLES cfg,       \* [bpf, nfiles, last, req (requested blocks, 0 = not given), nsub, digitize, second ("none" | "same" | "flip")]
          rec,       \* recording in progress (1 or 2): the same backend may record again, possibly with the other digitise flag
          done,      \* summaries of finished recordings
          pc, blk, sub,
          inFile, inPos,     \* open input file and byte position in it (in units of one framed block)
          cached,    \* power of the digitiser target deviation folded into the filterbank's CACHED deviation (must stay 0)
          gains,     \* sequence of powers of the target deviation used for each sub-block's custom deviation
          reads,     \* sequence of [file, index] of the input blocks consumed
          nout,      \* blocks written
          aborted    \* an interrupted attempt has taken place

vars == <<cfg, rec, done, pc, blk, sub, inFile, inPos, cached, gains, reads, nout, aborted>>

InBlocks(c) == c.bpf * (c.nfiles - 1) + c.last
NumBlocks(c) == IF c.req = 0 THEN InBlocks(c) ELSE IF c.req < InBlocks(c) THEN c.req ELSE InBlocks(c)

Dig == IF rec = 1 THEN cfg.digitize ELSE IF cfg.second = "flip" THEN ~cfg.digitize ELSE cfg.digitize

Init == /\ rec = 1 /\ done = <<>>
        /\ cfg \in {c \in [bpf : BpfSet, nfiles : FilesSet, last : BpfSet, req : ReqSet, nsub : SubSet, digitize : BOOLEAN,
                            second : {"none", "same", "flip"}, abort : BOOLEAN] :
                        c.last <= c.bpf /\ (c.nfiles = 1 => c.last = c.bpf)}   \* a single file defines blocks-per-file
        /\ pc = "begin" /\ blk = 0 /\ sub = 0 /\ inFile = -1 /\ inPos = 0
        /\ cached = 0 /\ gains = <<>> /\ reads = <<>> /\ nout = 0 /\ aborted = FALSE

Begin == /\ pc = "begin" /\ pc' = IF NumBlocks(cfg) > 0 THEN "open" ELSE "end"
         /\ UNCHANGED <<cfg, rec, done, blk, sub, inFile, inPos, cached, gains, reads, nout, aborted>>

(* output file i is written while input file i is open (same blocks per file as the input) *)
Open == /\ pc = "open"
        /\ inFile' = blk \div cfg.bpf /\ inPos' = 0 /\ pc' = "read"
        /\ UNCHANGED <<cfg, rec, done, blk, sub, cached, gains, reads, nout, aborted>>

(* _read_next_block: skip the header region, read BLOCSIZE bytes: consumes exactly one framed block *)
Read == /\ pc = "read"
        /\ reads' = Append(reads, [file |-> inFile, index |-> inPos])
        /\ inPos' = inPos + 1 /\ sub' = 0 /\ pc' = "sub"
        /\ UNCHANGED <<cfg, rec, done, blk, inFile, cached, gains, nout, aborted>>

(* one sub-block: custom deviation = cached deviation * target deviation (digitiser on), computed afresh *)
SubBlock == /\ pc = "sub" /\ sub < cfg.nsub
            /\ gains' = Append(gains, cached + (IF Dig THEN 1 ELSE 0))
            /\ cached' = cached                      \* the cached array is not modified
            /\ sub' = sub + 1
            /\ pc' = IF sub + 1 < cfg.nsub THEN "sub" ELSE "write"
            /\ UNCHANGED <<cfg, rec, done, blk, inFile, inPos, reads, nout, aborted>>

Write == /\ pc = "write"
         /\ nout' = nout + 1 /\ blk' = blk + 1
         /\ pc' = IF blk + 1 >= NumBlocks(cfg) THEN "end"
                  ELSE IF (blk + 1) % cfg.bpf = 0 THEN "open" ELSE "read"
         /\ UNCHANGED <<cfg, rec, done, sub, inFile, inPos, cached, gains, reads, aborted>>

(* a recording is over: remember its summary; the same backend may be asked to record once more (everything starts afresh
   except what the backend keeps: the filterbank's cached unit-noise deviation) *)
Summary == [digitize |-> Dig, numBlocks |-> NumBlocks(cfg), reads |-> reads, gains |-> gains]
(* the first attempt at the first recording is interrupted (the voltage source raises) while a block is being built:
   record() propagates the failure; the next record() starts from the first input block again, like any other *)
AbortAttempt ==
    /\ cfg.abort /\ ~aborted /\ rec = 1 /\ pc = "sub" /\ Len(gains) = 1
    /\ aborted' = TRUE
    /\ pc' = "begin" /\ blk' = 0 /\ sub' = 0 /\ inFile' = -1 /\ inPos' = 0 /\ gains' = <<>> /\ reads' = <<>> /\ nout' = 0
    /\ UNCHANGED <<cfg, rec, done, cached>>

Again == /\ pc = "end" /\ rec = 1 /\ cfg.second # "none"
         /\ done' = Append(done, Summary) /\ rec' = 2
         /\ pc' = "begin" /\ blk' = 0 /\ sub' = 0 /\ inFile' = -1 /\ inPos' = 0 /\ gains' = <<>> /\ reads' = <<>> /\ nout' = 0
         /\ UNCHANGED <<cfg, cached, aborted>>
Last == pc = "end" /\ (rec = 2 \/ cfg.second = "none")
Emit == /\ EmitOn /\ Last
        /\ PrintT(ToJson([cfg |-> cfg, aborted |-> aborted, recs |-> Append(done, Summary)]))
        /\ pc' = "emitted" /\ UNCHANGED <<cfg, rec, done, blk, sub, inFile, inPos, cached, gains, reads, nout, aborted>>
Idle == (pc = "emitted" \/ (~EmitOn /\ Last)) /\ UNCHANGED vars

Next == Begin \/ Open \/ Read \/ SubBlock \/ AbortAttempt \/ Write \/ Again \/ Emit \/ Idle
Spec == Init /\ [][Next]_vars

-----------------------------------------------------------------------------
(* output block k is built from input block k: k-th read is block (k mod bpf) of file (k div bpf) *)
ReadsInOrder == \A k \in 1..Len(reads) : reads[k].file = (k - 1) \div cfg.bpf /\ reads[k].index = (k - 1) % cfg.bpf

(* never reads past the input, never writes more than the input holds or than requested *)
LengthClampedToInput ==
    /\ nout <= InBlocks(cfg) /\ (cfg.req # 0 => nout <= cfg.req)
    /\ (pc \in {"end", "emitted"} => nout = NumBlocks(cfg))
    /\ \A k \in 1..Len(reads) : reads[k].index < (IF reads[k].file = cfg.nfiles - 1 THEN cfg.last ELSE cfg.bpf)

(* the gain applied to the synthetic signal is the same at every sub-block of every block *)
GainStationary == \A k \in 1..Len(gains) : gains[k] = (IF Dig THEN 1 ELSE 0)
CachedStdUntouched == cached = 0
=============================================================================
