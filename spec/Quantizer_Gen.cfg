SPECIFICATION Spec
CONSTANTS
  MaxCalls = 4
  EmitOn = TRUE
  BitsSet = {2, 3, 4, 8}
  PeriodSet <- PeriodSetAll
  KSet = {1, 3}
  TMSet <- TMSetAll
CHECK_DEADLOCK FALSE
