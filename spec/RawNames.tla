------------------------------ MODULE RawNames ------------------------------
(***************************************************************************)
(* Extension beyond the listed properties: the file names of a recording.   *)
(* record() writes <stem>.0000.raw, <stem>.0001.raw, ...; get_stem(filename) *)
(* is documented as the inverse ("extract RAW stem from RAW filename"), so   *)
(* that get_raw_params / from_data find the recording again from any of its  *)
(* files.  Names are sequences of dot-separated tokens; a stem may itself    *)
(* contain dots (GBT names such as blc00_guppi_59000_1234_src_0001 do not,   *)
(* user-chosen ones such as "my.obs" do).                                    *)
(* The implementation drops the ".raw" suffix, splits the rest at the dots,   *)
(* drops the last token and joins the remaining ones WITHOUT a separator     *)
(* (AsBuilt): equal to the specification exactly for dot-free stems.         *)
(***************************************************************************)
EXTENDS Integers, Sequences, FiniteSets, TLC, Json

CONSTANTS EmitOn
VARIABLES stem,     \* sequence of tokens of the stem: <<"my", "obs">> stands for "my.obs"
          idx,      \* file index 0..9999 (four digits)
          phase, out
vars == <<stem, idx, phase, out>>

Tokens == {"obs", "my", "b0", "x"}
Stems == {<<a>> : a \in Tokens} \cup {<<a, b>> : a \in Tokens, b \in Tokens} \cup {<<"my", "b0", "x">>}

Digit(d) == <<"0", "1", "2", "3", "4", "5", "6", "7", "8", "9">>[d + 1]
Pad4(i) == Digit(i \div 1000) \o Digit((i \div 100) % 10) \o Digit((i \div 10) % 10) \o Digit(i % 10)

(* the name record() gives file i of a recording *)
FileName(s, i) == s \o <<Pad4(i), "raw">>
(* the stem of a file name: everything before the index token *)
GetStem(name) == SubSeq(name, 1, Len(name) - 2)
(* as built: the tokens before the index, concatenated without separator (one token) *)
RECURSIVE Cat(_)
Cat(s) == IF s = <<>> THEN "" ELSE Head(s) \o Cat(Tail(s))
AsBuilt(name) == <<Cat(SubSeq(name, 1, Len(name) - 2))>>

Init == /\ stem \in Stems /\ idx \in {0, 1, 7, 10, 123, 9999} /\ phase = "cfg" /\ out = <<>>
Compute == /\ phase = "cfg"
           /\ out' = [stem |-> stem, idx |-> idx, file |-> FileName(stem, idx), want |-> GetStem(FileName(stem, idx)),
                      asbuilt |-> AsBuilt(FileName(stem, idx)), first |-> FileName(GetStem(FileName(stem, idx)), 0)]
           /\ phase' = "done" /\ UNCHANGED <<stem, idx>>
Emit == /\ EmitOn /\ phase = "done" /\ PrintT(ToJson(out)) /\ phase' = "emitted" /\ UNCHANGED <<stem, idx, out>>
Idle == phase \in {"done", "emitted"} /\ (~EmitOn \/ phase = "emitted") /\ UNCHANGED vars
Next == Compute \/ Emit \/ Idle
Spec == Init /\ [][Next]_vars

(* from any file of a recording the stem is recovered, hence the first file is found again *)
StemRoundTrip == GetStem(FileName(stem, idx)) = stem
IndexIsFourDigits == Len(FileName(stem, idx)) = Len(stem) + 2
(* the as-built folding agrees with the specification exactly for dot-free stems *)
AsBuiltAgreesIffDotFree == (AsBuilt(FileName(stem, idx)) = GetStem(FileName(stem, idx))) <=> (Len(stem) = 1)
=============================================================================
