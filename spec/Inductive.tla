------------------------------ MODULE Inductive ------------------------------
(***************************************************************************)
(* Unbounded safety of the counter machines inside the bounded models, by   *)
(* inductive invariants discharged with Apalache over unbounded integers    *)
(*   apalache-mc check --init=Init    --inv=IndInv --length=0    base: Init => IndInv            *)
(*   apalache-mc check --init=IndInit --inv=IndInv --length=1    step: IndInv /\ Next => IndInv'  *)
(* Five machines run side by side on disjoint variables (one Next):         *)
(*   Q  the refresh counter of a quantiser (Quantizer.tla: idx, cache),      *)
(*   P  the tail cache of a filterbank in units of windows (PFB.tla),        *)
(*   S  the sub-block loop of collect_data_block (Backend.tla),              *)
(*   B  blocks, files and PKTIDX of record() (Backend.tla / RawFiles.tla),   *)
(*   C  the clocks of an antenna and its two polarisation streams with      *)
(*      requests of any size, single streams asked directly (Peek) and      *)
(*      set_time / add_time / reset_start (Stream.tla: skew, ClockExact,    *)
(*      AntennaClockEqualsStreams, ResyncAtStart).                          *)
(* TLC checks the same invariants on the bounded models; here no bound on    *)
(* calls, periods, windows, block sizes or block counts remains.             *)
(***************************************************************************)
EXTENDS Integers

VARIABLES
    \* @type: Int;
    p,          \* Q: stats_calc_period (any integer; <= 0 means "first call only")
    \* @type: Int;
    calls,      \* Q: quantize calls since construction / reset
    \* @type: Int;
    idx,        \* Q: the implementation's counter
    \* @type: Bool;
    cached,     \* Q: statistics cached
    \* @type: Int;
    lastRefresh, \* Q: call number (0-based) of the most recent refresh, -1 if none
    \* @type: Bool;
    set,        \* P: a cache exists
    \* @type: Int;
    fedW,       \* P: windows (of taps rows) fed with cache=True since the last reset
    \* @type: Int;
    outW,       \* P: windows worth of spectra returned so far (taps spectra each)
    \* @type: Int;
    T,          \* S: windows per block
    \* @type: Int;
    subT,       \* S: windows per sub-block (the planned size)
    \* @type: Int;
    sub,        \* S: sub-blocks done
    \* @type: Int;
    written,    \* S: windows of the block written so far
    \* @type: Int;
    bpf,        \* B: blocks per file
    \* @type: Int;
    spb,        \* B: spectra per block
    \* @type: Int;
    pkt0,       \* B: PKTIDX of the first block
    \* @type: Int;
    blk,        \* B: blocks written
    \* @type: Int;
    file,       \* B: index of the file being written
    \* @type: Int;
    inFile,     \* B: blocks already in that file
    \* @type: Int;
    pktidx,     \* B: PKTIDX of the next header
    \* @type: Int;
    aclk,       \* C: the antenna's clock (ticks)
    \* @type: Int;
    ox,         \* C: clock of the x stream
    \* @type: Int;
    oy,         \* C: clock of the y stream
    \* @type: Int;
    skx,        \* C: samples asked of the x stream directly since the last set_time
    \* @type: Int;
    sky,        \* C: the same for y
    \* @type: Int;
    base0,      \* C: tick of the last set_time
    \* @type: Int;
    cntc,       \* C: samples delivered by the antenna since then
    \* @type: Bool;
    startc      \* C: the antenna waits at the start of an observation

qv == <<p, calls, idx, cached, lastRefresh>>
pv == <<set, fedW, outW>>
\* @type: <<Int, Int, Int, Int>>;
sv == <<T, subT, sub, written>>
\* @type: <<Int, Int, Int, Int, Int, Int, Int>>;
bv == <<bpf, spb, pkt0, blk, file, inFile, pktidx>>
cv == <<aclk, ox, oy, skx, sky, base0, cntc, startc>>
vars == <<qv, pv, sv, bv, cv>>

Min(a, b) == IF a < b THEN a ELSE b
Ceil(a, b) == (a + b - 1) \div b

-----------------------------------------------------------------------------
(* Q: RealQuantizer.quantize / _reset_cache *)
QRefreshNow == IF p > 0 THEN idx = 0 ELSE ~cached
QCall == /\ lastRefresh' = IF QRefreshNow THEN calls ELSE lastRefresh
         /\ idx' = IF p > 0 THEN (idx + 1) % p ELSE idx + 1
         /\ cached' = TRUE /\ calls' = calls + 1 /\ UNCHANGED p
QReset == /\ idx' = 0 /\ cached' = FALSE /\ calls' = 0 /\ lastRefresh' = -1 /\ UNCHANGED p
QInv == /\ calls >= 0
        /\ (p > 0 => (idx = calls % p /\ 0 <= idx /\ idx < p))
        /\ (p <= 0 => idx = calls)
        /\ (cached <=> calls > 0)
        \* the cached statistics come from the most recent scheduled call: 0, p, 2p, ... (first call only for p <= 0)
        /\ (calls = 0 => lastRefresh = -1)
        /\ (calls > 0 /\ p > 0 => lastRefresh = ((calls - 1) \div p) * p)
        /\ (calls > 0 /\ p <= 0 => lastRefresh = 0)

(* P: channelize(cache=True) with w >= 1 windows / reset *)
PCall(w) == /\ w >= 1
            /\ outW' = outW + ((IF set THEN 1 ELSE 0) + w) - 1      \* (cache + input) windows - 1, taps spectra each
            /\ fedW' = fedW + w /\ set' = TRUE
PReset == set' = FALSE /\ fedW' = 0 /\ outW' = 0
PInv == /\ fedW >= 0 /\ outW >= 0
        /\ (set <=> fedW > 0)
        /\ (set => outW = fedW - 1)          \* NoGapNoRepeat: everything but the last window has been turned into spectra
        /\ (~set => outW = 0)

(* S: the loop over sub-blocks of one block *)
SStep == /\ written < T
         /\ written' = written + Min(subT, T - written) /\ sub' = sub + 1 /\ UNCHANGED <<T, subT>>
SInv == /\ T >= 1 /\ subT >= 1 /\ sub >= 0
        /\ written = Min(sub * subT, T)                              \* sub-blocks tile the block from the start, the last one shorter
        /\ (written = T <=> sub >= Ceil(T, subT))                    \* exactly ceil(T / subT) iterations
        /\ sub <= Ceil(T, subT)

(* B: one more block written *)
BStep == /\ blk' = blk + 1 /\ pktidx' = pktidx + spb
         /\ IF inFile + 1 = bpf THEN file' = file + 1 /\ inFile' = 0 ELSE file' = file /\ inFile' = inFile + 1
         /\ UNCHANGED <<bpf, spb, pkt0>>
BInv == /\ bpf >= 1 /\ spb >= 1 /\ blk >= 0
        /\ file = blk \div bpf /\ inFile = blk % bpf                 \* BlocksPerFile
        /\ pktidx = pkt0 + blk * spb                                 \* PktIdxStep

(* C: Antenna.get_samples(n) / a single stream's get_samples(n) / set_time(t) (add_time(d) = set_time(clock + d),
   reset_start = add_time(0): SetAll of Stream.tla is absolute, which is what re-synchronises a stream that ran ahead) *)
CGet(n) == /\ n >= 1 /\ aclk' = aclk + n /\ ox' = ox + n /\ oy' = oy + n /\ cntc' = cntc + n /\ startc' = FALSE
           /\ UNCHANGED <<skx, sky, base0>>
CPeekX(n) == /\ n >= 1 /\ ox' = ox + n /\ skx' = skx + n /\ UNCHANGED <<aclk, oy, sky, base0, cntc, startc>>
CPeekY(n) == /\ n >= 1 /\ oy' = oy + n /\ sky' = sky + n /\ UNCHANGED <<aclk, ox, skx, base0, cntc, startc>>
CSet(t) == /\ aclk' = t /\ ox' = t /\ oy' = t /\ skx' = 0 /\ sky' = 0 /\ base0' = t /\ cntc' = 0 /\ startc' = TRUE
CInv == /\ cntc >= 0 /\ skx >= 0 /\ sky >= 0
        /\ aclk = base0 + cntc                                        \* ClockExact (antenna)
        /\ ox = aclk + skx /\ oy = aclk + sky                         \* AntennaClockEqualsStreams up to the skew
        /\ (startc => (cntc = 0 /\ aclk = base0))
        /\ ((startc /\ skx = 0 /\ sky = 0) => (ox = base0 /\ oy = base0))   \* ResyncAtStart

-----------------------------------------------------------------------------
Init == /\ p \in Int /\ calls = 0 /\ idx = 0 /\ cached = FALSE /\ lastRefresh = -1
        /\ set = FALSE /\ fedW = 0 /\ outW = 0
        /\ T \in Int /\ T >= 1 /\ subT \in Int /\ subT >= 1 /\ sub = 0 /\ written = 0
        /\ bpf \in Int /\ bpf >= 1 /\ spb \in Int /\ spb >= 1 /\ pkt0 \in Int /\ blk = 0 /\ file = 0 /\ inFile = 0 /\ pktidx = pkt0
        /\ base0 \in Int /\ aclk = base0 /\ ox = base0 /\ oy = base0 /\ skx = 0 /\ sky = 0 /\ cntc = 0 /\ startc = TRUE

Next == \/ (QCall /\ UNCHANGED <<pv, sv, bv, cv>>)
        \/ (QReset /\ UNCHANGED <<pv, sv, bv, cv>>)
        \/ (\E w \in Int : PCall(w) /\ UNCHANGED <<qv, sv, bv, cv>>)
        \/ (PReset /\ UNCHANGED <<qv, sv, bv, cv>>)
        \/ (SStep /\ UNCHANGED <<qv, pv, bv, cv>>)
        \/ (BStep /\ UNCHANGED <<qv, pv, sv, cv>>)
        \/ (\E n \in Int : CGet(n) /\ UNCHANGED <<qv, pv, sv, bv>>)
        \/ (\E n \in Int : CPeekX(n) /\ UNCHANGED <<qv, pv, sv, bv>>)
        \/ (\E n \in Int : CPeekY(n) /\ UNCHANGED <<qv, pv, sv, bv>>)
        \/ (\E t \in Int : CSet(t) /\ UNCHANGED <<qv, pv, sv, bv>>)
        \/ (\E d \in Int : CSet(aclk + d) /\ UNCHANGED <<qv, pv, sv, bv>>)

IndInv == QInv /\ PInv /\ SInv /\ BInv /\ CInv
IndInit == /\ p \in Int /\ calls \in Int /\ idx \in Int /\ cached \in BOOLEAN /\ lastRefresh \in Int
           /\ set \in BOOLEAN /\ fedW \in Int /\ outW \in Int
           /\ T \in Int /\ subT \in Int /\ sub \in Int /\ written \in Int
           /\ bpf \in Int /\ spb \in Int /\ pkt0 \in Int /\ blk \in Int /\ file \in Int /\ inFile \in Int /\ pktidx \in Int
           /\ aclk \in Int /\ ox \in Int /\ oy \in Int /\ skx \in Int /\ sky \in Int /\ base0 \in Int /\ cntc \in Int
           /\ startc \in BOOLEAN
           /\ IndInv
=============================================================================
