SPECIFICATION Spec
CONSTANTS
  MaxWin = 5
  MaxOps = 5
  EmitOn = FALSE
  TapsSet = {2, 3}
  BSet = {2, 4}
VIEW View
INVARIANT NoGapNoRepeat
INVARIANT CacheIsTail
INVARIANT ChunkingInvariant
PROPERTY ObjectsIndependent
PROPERTY OneShotIsPure
CHECK_DEADLOCK FALSE
