SPECIFICATION Spec
CONSTANTS
  FSet = {7, 12}
  TSet = {3, 4}
  Focus = "all"
  EmitOn = FALSE
INVARIANT SubstepsPositive
INVARIANT ZeroDriftOneStep
INVARIANT NegDriftIsMirror
INVARIANT CentreMustEqual
CHECK_DEADLOCK TRUE
