----------------------------- MODULE StreamTrace -----------------------------
(***************************************************************************)
(* Trace validation of real voltage-source executions (recorded by          *)
(* harness/record_stream.py at the return of every outermost get_samples /   *)
(* set_time / add_time / reset_start / update_noise call on DataStream,      *)
(* Antenna and MultiAntennaArray objects, also under the repository's own    *)
(* voltage tests, where the callers are RawVoltageBackend.record and the     *)
(* tests themselves) against the clock rules of Stream.tla.                  *)
(*                                                                         *)
(* An event lists the object family (the object itself, then the streams /   *)
(* background streams / antennas it drives) with roles, and for each member  *)
(* its clock in samples and its start flag before and after the call.        *)
(* The specification keeps the clock and flag of every object it has seen:   *)
(* what a call finds must be what the previous call on that object left      *)
(* (continuity), and what it leaves is decided by the rules below.           *)
(***************************************************************************)
EXTENDS Integers, Sequences, FiniteSets, TLC, Json, IOUtils

Traces == JsonDeserialize(IOEnv.TRACE_FILE)

VARIABLES tid, l, bad, known, clock, start
vars == <<tid, l, bad, known, clock, start>>

Evs == Traces[tid].ev
E   == Evs[l]
N(e) == Len(e.ids)
Failing(r) == {k \in DOMAIN r : ~r[k]}

Init == /\ tid \in 1..Len(Traces) /\ l = 1 /\ bad = {} /\ known = {}
        /\ clock = [o \in 1..Traces[tid].h.n |-> 0] /\ start = [o \in 1..Traces[tid].h.n |-> TRUE]
        /\ TLCSet(tid, <<1, {}>>)

Cont(e) == \A j \in 1..N(e) : e.ids[j] \in known => (e.before[j][1] = clock[e.ids[j]] /\ e.before[j][2] = start[e.ids[j]])
Same(e) == \A j \in 1..N(e) : e.after[j] = e.before[j]

(* how far member j has moved *)
Adv(e, j) == e.after[j][1] - e.before[j][1]

(* get_samples(n) *)
GetRule(e) ==
    IF e.st # "ok" THEN Same(e) /\ e.clen_a = e.clen_b                                   \* a refused request leaves no trace
    ELSE IF e.kind = "array"
    THEN /\ e.a.n > e.D
         /\ \A j \in 1..N(e) :
               CASE e.roles[j] = "self" -> Adv(e, j) = e.a.n /\ ~e.after[j][2]
                 [] e.roles[j] = "own"  -> Adv(e, j) = e.a.n /\ ~e.after[j][2]
                 [] e.roles[j] = "bg"   -> Adv(e, j) = e.a.n + (IF e.before[1][2] THEN e.D ELSE 0) /\ ~e.after[j][2]
                 [] OTHER               -> TRUE          \* member antennas' own clocks are not driven by array requests
         /\ e.clen_a = e.delays                                                          \* carried background: delay_i samples each
    ELSE \A j \in 1..N(e) : Adv(e, j) = e.a.n /\ ~e.after[j][2]

(* must the request have been refused? *)
MustRefuse(e) == ~e.a.valid \/ e.a.n < 0 \/ (e.kind = "array" /\ e.a.n <= e.D)

SetRule(e, t) ==
    IF e.st # "ok" THEN Same(e)
    ELSE /\ \A j \in 1..N(e) : e.after[j][1] = t /\ e.after[j][2]
         /\ \A k \in 1..Len(e.clen_a) : e.clen_a[k] = -1                                 \* carried background dropped

(* construction: every clock of the family starts at the object's start time, every start flag is raised, nothing carried *)
CreateRule(e) == /\ \A j \in 1..N(e) : e.after[j][1] = e.after[1][1] /\ e.after[j][2]
                 /\ \A k \in 1..Len(e.clen_a) : e.clen_a[k] = -1

Checks(e) ==
    CASE e.e = "Create" -> [C10_family_starts_together |-> CreateRule(e)]
      [] e.e = "Get" ->
            [cont_clocks |-> Cont(e),
             C10_refused_iff_invalid |-> (MustRefuse(e) => e.st # "ok"),
             C10_clock_advances_by_request |-> (e.kind = "array" \/ GetRule(e)),
             C15_array_request |-> (e.kind # "array" \/ GetRule(e))]
      [] e.e = "SetTime" -> [cont_clocks |-> Cont(e), C10_set_time |-> SetRule(e, e.a.t)]
      [] e.e = "AddTime" -> [cont_clocks |-> Cont(e), C10_add_time |-> SetRule(e, e.before[1][1] + e.a.d)]
      [] e.e = "Reset"   -> [cont_clocks |-> Cont(e), C10_reset_start |-> SetRule(e, e.before[1][1])]
      [] e.e = "UpdateNoise" -> [cont_clocks |-> Cont(e), C10_update_noise_keeps_clock |-> Same(e)]

Step == /\ l <= Len(Evs) /\ bad = {}
        /\ LET c == Checks(E) IN
           IF Failing(c) # {} THEN bad' = Failing(c) /\ UNCHANGED <<tid, l, known, clock, start>>
           ELSE /\ bad' = {} /\ l' = l + 1 /\ UNCHANGED tid
                /\ known' = known \cup {E.ids[j] : j \in 1..N(E)}
                /\ clock' = [o \in DOMAIN clock |-> IF \E j \in 1..N(E) : E.ids[j] = o
                                                    THEN E.after[CHOOSE j \in 1..N(E) : E.ids[j] = o][1] ELSE clock[o]]
                /\ start' = [o \in DOMAIN start |-> IF \E j \in 1..N(E) : E.ids[j] = o
                                                    THEN E.after[CHOOSE j \in 1..N(E) : E.ids[j] = o][2] ELSE start[o]]

Next == Step
Spec == Init /\ [][Next]_vars

Progress == TLCSet(tid, IF bad # {} THEN <<l, bad>> ELSE IF TLCGet(tid)[1] < l THEN <<l, {}>> ELSE TLCGet(tid))
Post == \A t \in 1..Len(Traces) :
            \/ (TLCGet(t)[1] = Len(Traces[t].ev) + 1 /\ TLCGet(t)[2] = {})
            \/ PrintT(ToJson([reject |-> t, at |-> TLCGet(t)[1],
                              why |-> IF TLCGet(t)[2] # {} THEN TLCGet(t)[2] ELSE {"no-action-for-" \o Traces[t].ev[TLCGet(t)[1]].e}]))
=============================================================================
