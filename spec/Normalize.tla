------------------------------ MODULE Normalize -----------------------------
(***************************************************************************)
(* Extension beyond the listed properties (DESIGN 12): the index arithmetic *)
(* of setigen.normalize.  sliding_norm normalises every frequency channel i *)
(* with the statistics of the window of channels [max(0, i - cols),          *)
(* min(F, i + cols + 1)), after discarding the brightest fraction `exclude`  *)
(* of the window's T * width samples (it keeps the ceil(T * width * (1 -     *)
(* exclude)) lowest ones); blimpy_clip drops the int(exclude * N) brightest  *)
(* samples of the whole array.  Data are the integers 1..T*F in a fixed      *)
(* pseudo-random arrangement, so every kept set is determined exactly; the   *)
(* spec emits, per channel, the window, the kept count and the sum and sum   *)
(* of squares of the kept samples (mean and deviation follow).               *)
(***************************************************************************)
EXTENDS Integers, Sequences, FiniteSets, TLC, Json

CONSTANTS TSet, FSet, ColsSet, EmitOn

VARIABLES cfg, phase, out
vars == <<cfg, phase, out>>

(* exclude = ex / 8 *)
Val(c, t, f) == (((t * c.F + f) * 7 + 3) % (c.T * c.F)) + 1          \* a permutation of 1..T*F when gcd(7, T*F) = 1
Start(c, i) == IF i < c.cols THEN 0 ELSE i - c.cols
End(c, i) == IF i > c.F - 1 - c.cols THEN c.F ELSE i + c.cols + 1
CeilDiv(a, b) == (a + b - 1) \div b
Kept(c, i) == CeilDiv(c.T * (End(c, i) - Start(c, i)) * (8 - c.ex), 8)
Window(c, i) == {Val(c, t, f) : t \in 0..c.T - 1, f \in Start(c, i)..End(c, i) - 1}
(* the k lowest values of a set of distinct integers *)
Lowest(S, k) == {x \in S : Cardinality({y \in S : y < x}) < k}
RECURSIVE SumSet(_)
SumSet(S) == IF S = {} THEN 0 ELSE LET x == CHOOSE x \in S : TRUE IN x + SumSet(S \ {x})
RECURSIVE SumSq(_)
SumSq(S) == IF S = {} THEN 0 ELSE LET x == CHOOSE x \in S : TRUE IN x * x + SumSq(S \ {x})

Init == /\ cfg \in {c \in [T : TSet, F : FSet, cols : ColsSet, ex : {0, 1, 3, 7}] : (c.T * c.F) % 7 # 0}
        /\ phase = "cfg" /\ out = <<>>
Compute == /\ phase = "cfg"
           /\ out' = [cfg |-> cfg,
                      chans |-> [i \in 0..cfg.F - 1 |-> LET k == Lowest(Window(cfg, i), Kept(cfg, i)) IN
                                    [start |-> Start(cfg, i), end |-> End(cfg, i), kept |-> Kept(cfg, i), sum |-> SumSet(k), sumsq |-> SumSq(k)]],
                      clipKept |-> cfg.T * cfg.F - ((cfg.ex * cfg.T * cfg.F) \div 8)]
           /\ phase' = "done" /\ UNCHANGED cfg
Emit == /\ EmitOn /\ phase = "done" /\ PrintT(ToJson(out)) /\ phase' = "emitted" /\ UNCHANGED <<cfg, out>>
Idle == phase \in {"done", "emitted"} /\ (~EmitOn \/ phase = "emitted") /\ UNCHANGED vars
Next == Compute \/ Emit \/ Idle
Spec == Init /\ [][Next]_vars

(* windows are non-empty, inside the band, contain their own channel, and are symmetric away from the edges *)
WindowSane == \A i \in 0..cfg.F - 1 : /\ 0 <= Start(cfg, i) /\ Start(cfg, i) <= i /\ i < End(cfg, i) /\ End(cfg, i) <= cfg.F
                                     /\ ((i >= cfg.cols /\ i <= cfg.F - 1 - cfg.cols) => End(cfg, i) - Start(cfg, i) = 2 * cfg.cols + 1)
(* at least one sample is kept unless everything is excluded; never more than the window holds *)
KeptSane == \A i \in 0..cfg.F - 1 : Kept(cfg, i) >= 1 /\ Kept(cfg, i) <= cfg.T * (End(cfg, i) - Start(cfg, i))
IsPermutation == Cardinality({Val(cfg, t, f) : t \in 0..cfg.T - 1, f \in 0..cfg.F - 1}) = cfg.T * cfg.F
=============================================================================
