----------------------------- MODULE Injection ------------------------------
(***************************************************************************)
(* Frame.add_signal (C01, C06) as a case analysis over exact integers.      *)
(*                                                                          *)
(* Units: frequency in u = 1/24 channel measured from the centre of the      *)
(* lowest-frequency column (column j is centred at 24 j); time in quanta of  *)
(* 1/6 time step (row i starts at 6 i).  The signal components are an        *)
(* integer-valued probe family that the adapter implements with the same     *)
(* formulas over floats:                                                     *)
(*   path      P(tau)  = p0 + slope * tau + curv * tau^2        (units u)    *)
(*   t_profile TP(tau) = 2 + (tau mod 3)                                     *)
(*   f_profile FP(f,c) = max(0, wd - (f-c)) above c, max(0, wd - 2(c-f)) below *)
(*   bandpass  BP(f)   = 1 + ((f div 6) mod 2)                               *)
(* Expected(c) is the documented per-component average: path and t_profile   *)
(* are averaged over the left Riemann grid of t_subsamples points per row,   *)
(* f_profile * bandpass over f_subsamples points per column, Doppler         *)
(* smearing is the mean over n copies centred at P_i + k (P_{i+1} - P_i)/n.  *)
(* All values are numerators over the fixed denominator Den(c).              *)
(***************************************************************************)
EXTENDS Integers, Sequences, FiniteSets, TLC, Json, InjectionMath

CONSTANTS Family,      \* which sub-space Init enumerates: "forms" | "ranges" | "paths" | "seq" (injection sequences, MaxInj > 1) | "pick" (random cross product)
          MaxInj,      \* injections per behaviour (C06 superposition)
          EmitOn

VARIABLES cfgs,        \* sequence of the signal configurations injected so far
          prior,       \* kind of prior frame content: "zero" | "ident"
          geo,         \* [F, T, asc]
          stage,       \* pick chain position (Family = "pick")
          cur,         \* configuration being assembled
          hist

vars == <<cfgs, prior, geo, stage, cur, hist>>

-----------------------------------------------------------------------------
(* configuration space *)
Base == [pathForm |-> "fn", tForm |-> "fn", bpForm |-> "fn", iP |-> FALSE, iT |-> FALSE, iF |-> FALSE,
         tsub |-> 2, fsub |-> 2, smear |-> 0, bnd |-> <<>>, p0 |-> 40, slope |-> 3, curv |-> 0, wd |-> 30]

PathForms == {"fn", "arr", "arrExt", "scalar", "bad", "badlen"}
TForms == {"fn", "arr", "scalar", "bad", "badlen"}
BpForms == {"none", "fn", "arr", "scalar", "bad", "badlen"}
Ranges == {<<>>, <<1, 4>>, <<-2, 3>>, <<2, 9>>, <<-5, -1>>, <<-3, 0>>, <<7, 12>>, <<6, 8>>, <<3, 3>>, <<0, 6>>}

PathFaulty(c) == c.pathForm \in {"bad", "badlen"} \/ (c.pathForm = "arrExt" /\ c.smear = 0) \/ (c.pathForm = "arr" /\ c.smear # 0)
B2N(b) == IF b THEN 1 ELSE 0
AtMostOneBad(c) == B2N(PathFaulty(c)) + B2N(c.tForm \in {"bad", "badlen"}) + B2N(c.bpForm \in {"bad", "badlen"}) <= 1
(* combinations the property leaves unspecified are not generated *)
Specified(c) == /\ ~(c.bpForm = "arr" /\ (c.iF \/ c.bnd # <<>>))      \* array bandpass on a restricted / sub-sampled grid
                /\ AtMostOneBad(c)

FormsFamily == {c \in {[Base EXCEPT !.pathForm = pf, !.tForm = tf, !.bpForm = bf, !.iP = ip, !.iT = it, !.iF = if, !.smear = sm]
                       : pf \in PathForms, tf \in TForms, bf \in BpForms, ip \in BOOLEAN, it \in BOOLEAN, if \in BOOLEAN,
                         sm \in {0, 2}} : Specified(c)}
RangesFamily == {c \in {[Base EXCEPT !.bnd = b, !.smear = sm, !.iF = if, !.p0 = p, !.slope = sl, !.bpForm = bf]
                        : b \in Ranges, sm \in {0, 3}, if \in BOOLEAN, p \in {-30, 40, 100, 170}, sl \in {-5, 4},
                          bf \in {"fn", "none"}} : Specified(c)}
PathsFamily == {c \in {[Base EXCEPT !.p0 = p, !.slope = sl, !.curv = cv, !.smear = sm, !.tsub = ts, !.fsub = fs, !.iP = ip,
                               !.iT = it, !.iF = if, !.wd = w]
                       : p \in {-20, 13, 60, 130}, sl \in {-7, 0, 2, 9}, cv \in {0, 1}, sm \in {0, 1, 2, 3}, ts \in {1, 2, 3},
                         fs \in {1, 2, 4}, ip \in BOOLEAN, it \in BOOLEAN, if \in BOOLEAN, w \in {6, 30, 50}} : Specified(c)}

(* sequences of injections into ONE frame whose bounding ranges differ in place and / or width, with and without
   frequency sub-sampling: whatever the frame remembers of an earlier injection must not leak into a later one *)
SeqFamily == {c \in {[Base EXCEPT !.bnd = b, !.iF = if, !.fsub = fs, !.p0 = p]
                     : b \in {<<>>, <<1, 4>>, <<2, 5>>, <<0, 3>>, <<2, 9>>, <<-2, 3>>}, if \in BOOLEAN, fs \in {2}, p \in {40}} : Specified(c)}

Geos == [F : {5, 6}, T : {2, 3}, asc : BOOLEAN]

Init == /\ geo \in (IF Family = "pick" THEN Geos ELSE {[F |-> 6, T |-> 3, asc |-> TRUE], [F |-> 5, T |-> 2, asc |-> FALSE]})
        /\ prior \in (IF Family = "pick" THEN {"zero", "ident"} ELSE {"ident"})
        /\ cfgs = <<>> /\ hist = <<>> /\ cur = Base
        /\ stage = IF Family = "pick" THEN "forms" ELSE "whole"

(* whole configurations from an exhaustive family *)
PickWhole == /\ stage = "whole" /\ Len(cfgs) < MaxInj
             /\ \E c \in (CASE Family = "forms" -> FormsFamily [] Family = "ranges" -> RangesFamily [] Family = "seq" -> SeqFamily [] OTHER -> PathsFamily) :
                    cur' = c
             /\ stage' = "inject" /\ UNCHANGED <<cfgs, prior, geo, hist>>

(* random cross product, assembled by a chain of small choices (the simulator enumerates all successors of a state) *)
PickForms == /\ stage = "forms" /\ Len(cfgs) < MaxInj
             /\ \E pf \in PathForms, tf \in TForms, bf \in BpForms :
                    cur' = [Base EXCEPT !.pathForm = pf, !.tForm = tf, !.bpForm = bf]
             /\ stage' = "flags" /\ UNCHANGED <<cfgs, prior, geo, hist>>
PickFlags == /\ stage = "flags"
             /\ \E ip \in BOOLEAN, it \in BOOLEAN, if \in BOOLEAN, sm \in {0, 1, 2, 3}, ts \in {1, 2, 3}, fs \in {1, 2, 4} :
                    cur' = [cur EXCEPT !.iP = ip, !.iT = it, !.iF = if, !.smear = sm, !.tsub = ts, !.fsub = fs]
             /\ stage' = "range" /\ UNCHANGED <<cfgs, prior, geo, hist>>
PickRange == /\ stage = "range"
             /\ \E b \in Ranges, w \in {6, 30, 50} : cur' = [cur EXCEPT !.bnd = b, !.wd = w]
             /\ stage' = "path" /\ UNCHANGED <<cfgs, prior, geo, hist>>
PickPath == /\ stage = "path"
            /\ \E p \in {-30, 13, 40, 100, 170}, sl \in {-7, -5, 0, 3, 9}, cv \in {0, 1} :
                   cur' = [cur EXCEPT !.p0 = p, !.slope = sl, !.curv = cv]
            /\ stage' = IF Specified(cur') THEN "inject" ELSE "forms"
            /\ UNCHANGED <<cfgs, prior, geo, hist>>

Inject == /\ stage = "inject"
          /\ cfgs' = Append(cfgs, cur)
          /\ hist' = Append(hist, [cfg |-> cur, status |-> Status(cur), den |-> Den(cur), lo |-> Lo(cur, geo.F), hi |-> Hi(cur, geo.F),
                                   returned |-> Returned(cur, geo)])
          /\ stage' = IF Family = "pick" THEN "forms" ELSE "whole"
          /\ UNCHANGED <<prior, geo, cur>>

Done == /\ EmitOn /\ Len(cfgs) = MaxInj /\ stage \in {"forms", "whole"}
        /\ PrintT(ToJson([geo |-> geo, prior |-> prior, steps |-> hist]))
        /\ stage' = "done" /\ UNCHANGED <<cfgs, prior, geo, cur, hist>>
Idle == (stage = "done" \/ (~EmitOn /\ Len(cfgs) = MaxInj /\ stage \in {"forms", "whole"})) /\ UNCHANGED vars

Next == PickWhole \/ PickForms \/ PickFlags \/ PickRange \/ PickPath \/ Inject \/ Done \/ Idle
Spec == Init /\ [][Next]_vars

-----------------------------------------------------------------------------
Last == hist[Len(hist)]
(* C06: the returned signal is zero outside the (clipped) bounding range *)
ReturnedZeroOutsideBounds ==
    hist # <<>> => \A i \in 1..geo.T, j \in 1..geo.F : (j - 1 < Last.lo \/ j - 1 >= Last.hi) => Last.returned[i][j] = 0
(* C06: the bounded result is the unbounded result restricted to the range *)
BoundedIsRestriction ==
    hist # <<>> => LET u == Returned([Last.cfg EXCEPT !.bnd = <<>>], geo) IN
                   \A i \in 1..geo.T, j \in 1..geo.F : (j - 1 >= Last.lo /\ j - 1 < Last.hi) => Last.returned[i][j] = u[i][j]
(* malformed components raise and contribute nothing *)
ErrorsContributeNothing ==
    hist # <<>> => (Last.status # "ok" => \A i \in 1..geo.T, j \in 1..geo.F : Last.returned[i][j] = 0)
(* C01 consistency of the input forms: a scalar equals a constant function, an array equals the function on the grid *)
ScalarEqualsConstantFn ==
    hist # <<>> => (Last.cfg.pathForm = "scalar" /\ Last.status = "ok" =>
                       Last.returned = Returned([Last.cfg EXCEPT !.pathForm = "fn", !.slope = 0, !.curv = 0], geo))
ArrayEqualsFnOnGrid ==
    hist # <<>> => (Last.cfg.pathForm = "arrExt" /\ Last.status = "ok" =>
                       Last.returned = Returned([Last.cfg EXCEPT !.pathForm = "fn", !.iP = FALSE], geo))
(* one smearing copy is the unsmeared signal *)
Smear1EqualsUnsmeared ==
    hist # <<>> => (Last.cfg.smear = 1 /\ Last.cfg.pathForm \in {"fn", "scalar"} =>
                       Last.returned = Returned([Last.cfg EXCEPT !.smear = 0], geo))
(* never negative, and non-zero somewhere when the signal crosses the range (guards against a vacuous Expected) *)
NonNegative == hist # <<>> => \A i \in 1..geo.T, j \in 1..geo.F : Last.returned[i][j] >= 0
=============================================================================
