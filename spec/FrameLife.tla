----------------------------- MODULE FrameLife ------------------------------
(***************************************************************************)
(* The life of frames (C03, C17): construction, in-session Waterfall,       *)
(* copy, frequency slice, de-drift, integration, save to .fil / .h5, load.  *)
(* Every pixel carries its identity 1000 * (row + 1) + world channel, so    *)
(* that "same data at the same sky frequency" is an equality of integers.   *)
(* A frame is [F, T, asc, lo, data, wf, t0, src]: lo is the world channel   *)
(* of its lowest-frequency column, data[i][j] is in memory order            *)
(* (increasing frequency), wf says whether a Waterfall object is attached   *)
(* (which is what distinguishes the save paths of the implementation).      *)
(***************************************************************************)
EXTENDS Integers, Sequences, FiniteSets, TLC, Json

CONSTANTS MaxOps, MaxObjs, MaxCreate, World, EmitOn,
          Focus      \* "all": every action and argument; "save": a small alphabet around Waterfall attachment, rebinding,
                     \* saving and loading, small enough to enumerate every sequence exhaustively

VARIABLES objs,      \* sequence of live frames
          files,     \* sequence of saved files [fmt, frame projection]
          last,      \* result of the last action
          ncreate,   \* frames created from scratch so far (bounded: the interesting behaviours derive frames)
          hist

vars == <<objs, files, last, ncreate, hist>>
View == <<objs, files, last, ncreate>>

Abs(x) == IF x < 0 THEN -x ELSE x
All == Focus = "all"
Met == Focus = "meta"        \* a small alphabet around the per-frame bookkeeping dictionary: frames created with a drift rate in
                             \* it, derived frames, add_metadata on parents and children, de-drifting "from metadata"
Der == Focus \in {"derive", "meta"}      \* a small alphabet around replaced time axes and derived frames (C17), enumerated exhaustively
AD == All \/ Focus = "derive"
Ident(i, w) == 1000 * i + w                                  \* row i (1-based), world channel w

NewFrame(F, T, asc, lo, t0, src) ==
    [F |-> F, T |-> T, asc |-> asc, lo |-> lo, t0 |-> t0, src |-> src, wf |-> FALSE, tsoff |-> 0, tsgap |-> 0, reg0 |-> TRUE,
     meta |-> IF Met THEN 2 ELSE 99,     \* drift rate (quarter channels per row) in the frame's OWN metadata dictionary, 99 = none

     data |-> [i \in 1..T |-> [j \in 1..F |-> Ident(i, lo + j - 1)]]]

(* round(n / 4) to the nearest integer, ties to even (numpy) *)
RoundQ(n) == LET f == n \div 4  r == n % 4 IN
             IF r < 2 THEN f ELSE IF r > 2 THEN f + 1 ELSE IF f % 2 = 0 THEN f ELSE f + 1

Proj(f) == [F |-> f.F, T |-> f.T, asc |-> f.asc, lo |-> f.lo, t0 |-> f.t0, src |-> f.src, data |-> f.data, tsoff |-> f.tsoff, tsgap |-> f.tsgap, reg0 |-> f.reg0, meta |-> f.meta]

Active == Len(hist) < MaxOps
Room == Len(objs) < MaxObjs
LogC(a, r) == hist' = Append(hist, [act |-> a, res |-> r, objs |-> [k \in 1..Len(objs') |-> Proj(objs'[k])],
                                    wf |-> [k \in 1..Len(objs') |-> objs'[k].wf]])
Log(a, r) == LogC(a, r) /\ UNCHANGED ncreate

Init == objs = <<>> /\ files = <<>> /\ last = [st |-> "ok"] /\ ncreate = 0 /\ hist = <<>>

Create(F, T, asc, lo, route) ==
    /\ Active /\ Room /\ lo + F <= World /\ ncreate < MaxCreate
    /\ ncreate' = ncreate + 1
    /\ objs' = Append(objs, NewFrame(F, T, asc, lo, 7, IF route = "data" THEN "Synthetic" ELSE (IF ncreate = 0 THEN "SRC1" ELSE "SRC2")))
    /\ last' = [st |-> "ok"] /\ UNCHANGED files
    /\ LogC([name |-> "Create", F |-> F, T |-> T, asc |-> asc, lo |-> lo, route |-> route], [st |-> "ok"])

GetWaterfall(o) ==
    /\ (~Der \/ o = 1) /\ ~Met /\ Active /\ o \in 1..Len(objs)
    /\ objs' = [objs EXCEPT ![o].wf = TRUE]
    /\ last' = [st |-> "ok"] /\ UNCHANGED files
    /\ Log([name |-> "GetWaterfall", o |-> o], [st |-> "ok"])

CopyOp(o) ==
    /\ Active /\ Room /\ o \in 1..Len(objs)
    /\ objs' = Append(objs, objs[o])
    /\ last' = [st |-> "ok"] /\ UNCHANGED files
    /\ Log([name |-> "Copy", o |-> o], [st |-> "ok"])

(* pickle round trip (save_pickle / load_pickle, pickle.dumps / loads): an equal, independent frame without Waterfall *)
PickleOp(o) ==
    /\ AD /\ Active /\ Room /\ o \in 1..Len(objs)
    /\ objs' = Append(objs, [objs[o] EXCEPT !.wf = FALSE])
    /\ last' = [st |-> "ok"] /\ UNCHANGED files
    /\ Log([name |-> "Pickle", o |-> o], [st |-> "ok"])

(* the user (or Cadence.consolidate) replaces the time axis: "shift": it starts tsoff rows later (absolute times);
   "gap": it keeps its first value but rows after the first come tsgap rows later (a cadence with slew gaps, timed from
   its own start).  Part of the frame's state that copies and pickles must carry; files do not store it, derived frames
   start afresh, and de-drifting / integration go by row index, not by the time axis *)
ShiftTs(o, kind) ==
    /\ AD /\ Active /\ o \in 1..Len(objs)
    /\ IF kind = "shift" THEN objs[o].tsoff = 0 /\ objs' = [objs EXCEPT ![o].tsoff = 5]
                         ELSE objs[o].tsgap = 0 /\ objs[o].T >= 2 /\ objs' = [objs EXCEPT ![o].tsgap = 5]
    /\ last' = [st |-> "ok"] /\ UNCHANGED files
    /\ Log([name |-> "ShiftTs", o |-> o, kind |-> kind], [st |-> "ok"])

(* change the data of one frame (to see that copies / derived frames hold their own data) *)
Mutate(o) ==
    /\ AD /\ Active /\ o \in 1..Len(objs)
    /\ objs' = [objs EXCEPT ![o].data = [i \in 1..objs[o].T |-> [j \in 1..objs[o].F |-> objs[o].data[i][j] + 500000]]]
    /\ last' = [st |-> "ok"] /\ UNCHANGED files
    /\ Log([name |-> "Mutate", o |-> o], [st |-> "ok"])

(* replace the pixel array by a new one of the same shape (frame.data = ..., zero_data + refill, load_npy) *)
Rebind(o) ==
    /\ ~Der /\ Active /\ o \in 1..Len(objs) /\ \A i \in 1..objs[o].T, j \in 1..objs[o].F : objs[o].data[i][j] % 500000 < 250000
    /\ objs' = [objs EXCEPT ![o].data = [i \in 1..objs[o].T |-> [j \in 1..objs[o].F |-> objs[o].data[i][j] + 250000]]]
    /\ last' = [st |-> "ok"] /\ UNCHANGED files
    /\ Log([name |-> "Rebind", o |-> o], [st |-> "ok"])

(* frequency slice [l, r): columns l..r-1 of data and axis.  form: how the caller writes the bounds -- as they are, or
   Python-style from the end (l - F, r - F): the same columns either way *)
Slice(o, l, r, form) ==
    /\ Active /\ Room /\ o \in 1..Len(objs) /\ 0 <= l /\ l < r /\ r <= objs[o].F
    /\ (form \in {"negr", "negboth"} => r < objs[o].F) /\ (form # "pos" => All)
    /\ LET f == objs[o]
           g == [f EXCEPT !.F = r - l, !.lo = f.lo + l, !.tsoff = 0, !.tsgap = 0,
                          !.data = [i \in 1..f.T |-> [j \in 1..r - l |-> f.data[i][l + j]]]] IN
       objs' = Append(objs, g)
    /\ last' = [st |-> "ok"] /\ UNCHANGED files
    /\ Log([name |-> "Slice", o |-> o, l |-> l, r |-> r, form |-> form,
             al |-> IF form \in {"negl", "negboth"} THEN l - objs[o].F ELSE l,
             ar |-> IF form \in {"negr", "negboth"} THEN r - objs[o].F ELSE r], [st |-> "ok"])

(* de-drift by q quarter-channels per row (signed) *)
MaxOffset(f, q) == RoundQ(Abs(q) * f.T)
Offset(q, i) == RoundQ(Abs(q) * i)                            \* row i is 0-based
DedriftAs(o, q, nm) ==
    /\ (AD \/ Met) /\ Active /\ Room /\ o \in 1..Len(objs)
    /\ LET f == objs[o]  m == MaxOffset(f, q)  a == [name |-> nm, o |-> o, q |-> q] IN
       IF m >= f.F
       THEN /\ objs' = objs /\ last' = [st |-> "ValueError"] /\ Log(a, [st |-> "ValueError"])
       ELSE LET W == f.F - m
                start(i) == IF q >= 0 THEN Offset(q, i) ELSE f.F - Offset(q, i) - W
                g == [f EXCEPT !.F = W, !.lo = IF q >= 0 THEN f.lo ELSE f.lo + m, !.tsoff = 0, !.tsgap = 0,
                               !.data = [i \in 1..f.T |-> [j \in 1..W |-> f.data[i][start(i - 1) + j]]]] IN
            /\ objs' = Append(objs, g) /\ last' = [st |-> "ok"] /\ Log(a, [st |-> "ok"])
    /\ UNCHANGED files

Dedrift(o, q) == ~Met /\ DedriftAs(o, q, "Dedrift")
(* dedrift(frame) without a rate: the rate the frame's own dictionary holds (inherited from the parent at derivation,
   replaced by the frame's own add_metadata -- never by a call on another frame) *)
DedriftMeta(o) == Met /\ o \in 1..Len(objs) /\ objs[o].meta # 99 /\ DedriftAs(o, objs[o].meta, "DedriftMeta")
(* frame.add_metadata({"drift_rate": q}) *)
SetMeta(o, q) ==
    /\ Met /\ Active /\ o \in 1..Len(objs) /\ objs[o].meta # q
    /\ objs' = [objs EXCEPT ![o].meta = q]
    /\ last' = [st |-> "ok"] /\ UNCHANGED files
    /\ Log([name |-> "SetMeta", o |-> o, q |-> q], [st |-> "ok"])

(* integration: per-column (axis t) or per-row (axis f) sums; the mean is sum / count *)
RECURSIVE SumSeq(_)
SumSeq(s) == IF s = <<>> THEN 0 ELSE Head(s) + SumSeq(Tail(s))
Integrate(o, axis) ==
    /\ AD /\ Active /\ o \in 1..Len(objs)
    /\ LET f == objs[o]
           sums == IF axis = "t" THEN [j \in 1..f.F |-> SumSeq([i \in 1..f.T |-> f.data[i][j]])]
                   ELSE [i \in 1..f.T |-> SumSeq(f.data[i])]
           r == [st |-> "ok", sums |-> sums, count |-> IF axis = "t" THEN f.T ELSE f.F,
                 lo |-> f.lo, F |-> IF axis = "t" THEN f.F ELSE 1, T |-> IF axis = "t" THEN 1 ELSE f.T,
                 tsoff |-> f.tsoff, tsgap |-> f.tsgap] IN
       /\ last' = r /\ UNCHANGED <<objs, files>>
       /\ Log([name |-> "Integrate", o |-> o, axis |-> axis], r)

Save(o, fmt) ==
    /\ ~Der /\ Active /\ o \in 1..Len(objs) /\ Len(files) < 2
    /\ (fmt = "h5" => (objs[o].T >= 3 /\ objs[o].F >= 3))   \* blimpy's HDF5 reader needs >= 3 integrations and channels
    /\ files' = Append(files, [fmt |-> fmt, frame |-> Proj(objs[o])])
    /\ objs' = [objs EXCEPT ![o].wf = TRUE]                      \* saving attaches / refreshes the Waterfall
    /\ last' = [st |-> "ok"]
    /\ Log([name |-> "Save", o |-> o, fmt |-> fmt, file |-> Len(files) + 1], [st |-> "ok", file |-> Proj(objs[o])])

(* a save that fails part-way (the target directory does not exist): it raises, writes no file, and must leave the frame
   such that a later save is as faithful as any other (the Waterfall it prepared stays attached) *)
SaveFail(o, fmt) ==
    /\ ~Der /\ Active /\ o \in 1..Len(objs) /\ (All \/ (fmt = "fil" /\ o = 1))
    /\ (fmt = "h5" => (objs[o].T >= 3 /\ objs[o].F >= 3))
    /\ objs' = [objs EXCEPT ![o].wf = TRUE]
    /\ last' = [st |-> "OSError"] /\ UNCHANGED files
    /\ Log([name |-> "SaveFail", o |-> o, fmt |-> fmt], [st |-> "OSError"])

Load(k) ==
    /\ ~Der /\ Active /\ Room /\ k \in 1..Len(files)
    /\ objs' = Append(objs, [files[k].frame EXCEPT !.tsoff = 0, !.tsgap = 0, !.meta = 99] @@ [wf |-> TRUE])
    /\ last' = [st |-> "ok"] /\ UNCHANGED files
    /\ Log([name |-> "Load", file |-> k], [st |-> "ok"])

(* load a frequency sub-band [l, r) of a file (f_start / f_stop selection): a query; the loaded frame must be a window of
   the saved frame registered at the same sky frequencies (which edge channels the reader includes is its business) *)
LoadSub(k, l, r) ==
    /\ (All \/ (Focus = "save" /\ l = 1 /\ r = 3)) /\ Active /\ k \in 1..Len(files) /\ 0 <= l /\ l + 1 < r /\ r <= files[k].frame.F
    /\ last' = [st |-> "ok"] /\ UNCHANGED <<objs, files>>
    /\ Log([name |-> "LoadSub", file |-> k, l |-> l, r |-> r], [st |-> "ok", file |-> files[k].frame])

(* a frame built from an in-session reader object that selects integrations [a, b) of a file: rows a..b-1, start time as
   the implementation reports it for such a selection (the file's); what matters afterwards is that saving and loading
   THIS frame is faithful *)
LoadT(k, a, b) ==
    /\ ~Der /\ Active /\ Room /\ k \in 1..Len(files) /\ 0 <= a /\ a < b /\ b <= files[k].frame.T
    /\ LET f == files[k].frame
           g == [f EXCEPT !.T = b - a, !.tsoff = 0, !.tsgap = 0, !.meta = 99, !.data = [i \in 1..b - a |-> f.data[a + i]],
                          !.reg0 = (f.reg0 /\ (a = 0 \/ \A j \in 1..f.F : (f.data[a + 1][j] % 250000) % 1000 = f.lo + j - 1))] IN
       objs' = Append(objs, g @@ [wf |-> TRUE])
    /\ last' = [st |-> "ok"] /\ UNCHANGED files
    /\ Log([name |-> "LoadT", file |-> k, a |-> a, b |-> b], [st |-> "ok"])

Done == /\ EmitOn /\ Len(hist) = MaxOps
        /\ PrintT(ToJson(hist))
        /\ hist' = Append(hist, [act |-> [name |-> "Done"]])
        /\ UNCHANGED <<objs, files, last, ncreate>>

Os == 1..MaxObjs
CreateArgs == IF All THEN {3, 4, 6} \X {2, 3} \X BOOLEAN \X {0, 2} \X {"sizes", "data"}
              ELSE IF Der THEN {6} \X {3} \X BOOLEAN \X {1} \X {"sizes"} ELSE {4} \X {3} \X BOOLEAN \X {1} \X {"sizes"}
SliceArgs == IF All THEN (0..5) \X (1..6) ELSE IF Der THEN {<<1, 5>>} ELSE {<<1, 4>>}
DriftArgs == IF Der THEN {-3, 2, 5} ELSE {-6, -4, -3, -1, 0, 2, 3, 5, 9}
LoadTArgs == IF All THEN (1..2) \X (0..1) \X (1..3) ELSE {<<1, 1, 3>>}
Next == \/ Done
        \/ \E x \in CreateArgs : Create(x[1], x[2], x[3], x[4], x[5])
        \/ \E o \in Os : GetWaterfall(o)
        \/ \E o \in Os : CopyOp(o)
        \/ \E o \in Os : PickleOp(o)
        \/ \E o \in Os : Mutate(o)
        \/ \E o \in Os, kind \in {"shift", "gap"} : ShiftTs(o, kind)
        \/ \E o \in Os : Rebind(o)
        \/ \E o \in Os, x \in SliceArgs, form \in {"pos", "negl", "negr", "negboth"} : Slice(o, x[1], x[2], form)
        \/ \E o \in Os, q \in DriftArgs : Dedrift(o, q)
        \/ \E o \in Os : DedriftMeta(o)
        \/ \E o \in Os, q \in {-3, 0} : SetMeta(o, q)
        \/ \E o \in Os, axis \in {"t", "f"} : Integrate(o, axis)
        \/ \E o \in Os, fmt \in {"fil", "h5"} : Save(o, fmt)
        \/ \E o \in Os, fmt \in {"fil", "h5"} : SaveFail(o, fmt)
        \/ \E k \in 1..2 : Load(k)
        \/ \E k \in 1..2, l \in 0..4, r \in 2..6 : LoadSub(k, l, r)
        \/ \E x \in LoadTArgs : LoadT(x[1], x[2], x[3])

Spec == Init /\ [][Next]_vars

-----------------------------------------------------------------------------
WellFormed(f) == /\ f.F >= 1 /\ f.lo >= 0 /\ f.lo + f.F <= World
                 /\ \A i \in 1..f.T, j \in 1..f.F : (f.data[i][j] % 250000) % 1000 \in 0..World - 1
(* C03: a file holds exactly the frame that was saved; loading gives it back *)
SaveLoadFaithful == \A k \in 1..Len(objs) : WellFormed(objs[k])
(* C17: row 0 of every frame keeps its pixels at their original frequencies: column j of row 1 carries world channel lo + j - 1
   (reg0: the frame's first row is the first row of its lineage -- a time-selected load of a de-drifted file starts at a
   row that de-drifting has legitimately shifted) *)
Row0Registered == \A k \in 1..Len(objs) : objs[k].reg0 => \A j \in 1..objs[k].F : (objs[k].data[1][j] % 250000) % 1000 = objs[k].lo + j - 1
(* C17: de-drifting maps a constant-drift line onto (almost) one column: consecutive rows of the de-drifted frame differ
   from the parent's drift line by at most one channel -- expressed on identities: row i holds world channels shifted by
   the row's offset, which never decreases and never jumps by more than ceil(|q| / 4) *)
RowsShiftMonotonically ==
    \A k \in 1..Len(objs) : \A i \in 1..objs[k].T - 1 :
        LET a == (objs[k].data[i][1] % 250000) % 1000  b == (objs[k].data[i + 1][1] % 250000) % 1000 IN Abs(b - a) <= 3
(* derived frames and copies hold their own data: mutating one object changes only that object *)
DerivedIsCopy ==
    [][\A o \in 1..Len(objs) : (hist' # hist /\ hist'[Len(hist')].act.name \in {"Mutate", "Rebind"} /\ hist'[Len(hist')].act.o # o)
          => objs'[o] = objs[o]]_vars
(* derived frames keep orientation, rows, start time and source name *)
DerivedKeepMeta ==
    [][(hist' # hist /\ hist'[Len(hist')].act.name \in {"Slice", "Dedrift", "Copy", "Pickle"} /\ Len(objs') = Len(objs) + 1) =>
          LET p == objs[hist'[Len(hist')].act.o]  c == objs'[Len(objs')] IN
          c.asc = p.asc /\ c.T = p.T /\ c.t0 = p.t0 /\ c.src = p.src]_vars
=============================================================================
