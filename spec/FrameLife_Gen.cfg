SPECIFICATION Spec
CONSTANTS
  MaxOps = 3
  MaxObjs = 3
  MaxCreate = 1
  Focus = "all"
  World = 8
  EmitOn = TRUE
CHECK_DEADLOCK FALSE
