----------------------------- MODULE Quantizer ------------------------------
(***************************************************************************)
(* RealQuantizer / ComplexQuantizer (C09): the statistics cache with its    *)
(* refresh counter, and the quantisation map itself over exact integers.    *)
(*                                                                          *)
(* Call c is fed data whose leading statsN samples have mean Mean(c) and     *)
(* deviation s (exactly representable), followed by the probe values XS, so *)
(* that "which call's statistics were used" is visible in every output.     *)
(* Q is set-valued at exact rounding ties (the property does not pin them). *)
(***************************************************************************)
EXTENDS Integers, Sequences, FiniteSets, TLC, Json

CONSTANTS MaxCalls, EmitOn,
          BitsSet, PeriodSet, KSet, TMSet      \* enumerated configuration space

VARIABLES cfg,     \* [bits, period, K (target deviation), tm (target mean), cplx]
          q,       \* q[part] = [idx, set, m, s] : refresh counter and cached statistics, part 1 = real, 2 = imag
          calls,
          since,   \* quantize calls since construction / the last reset
          last,    \* outputs of the last call: last[part] = sequence of sets of admissible integers
          hist

vars == <<cfg, q, calls, since, last, hist>>
View == <<cfg, q, calls, since, last>>

PeriodSetAll == {-1, 0, 1, 2, 3}
PeriodSetThorough == {-2, -1, 0, 1, 2, 3, 4}
TMSetAll == {0, 4, -8, 2, -15, 9}      \* target means in QUARTERS: 0, 1, -2 and the fractional 0.5, -3.75, 2.25

XS == <<-100000, -40, -7, -3, -2, -1, 0, 1, 2, 3, 5, 6, 40, 100000>>   \* +-100000 stand for +-1e30
Mean(c, part) == IF part = 1 THEN 10 * (c + 1) ELSE -7 * (c + 1)
Dev(s, part)  == IF part = 1 THEN s ELSE 2 * s

Lo == -(2 ^ (cfg.bits - 1))
Hi == 2 ^ (cfg.bits - 1) - 1
Clip(v) == IF v < Lo THEN Lo ELSE IF v > Hi THEN Hi ELSE v

(* round(N / d) for d > 0, both neighbours at an exact tie *)
RoundSet(N, d) == LET f == N \div d  r == N % d IN
                  IF 2 * r < d THEN {f} ELSE IF 2 * r > d THEN {f + 1} ELSE {f, f + 1}

(* the map: round((K / s) * (x - m) + tm/4), clipped; s = 0 means factor 0.  The target mean is inside the rounding:
   a fractional target mean moves the rounding boundaries, it is not added to already rounded deviations *)
Q(x, m, s) == IF s = 0 THEN {Clip(v) : v \in RoundSet(cfg.tm, 4)}
              ELSE {Clip(v) : v \in RoundSet(4 * cfg.K * (x - m) + cfg.tm * s, 4 * s)}

Parts == IF cfg.cplx THEN {1, 2} ELSE {1}

Init == /\ cfg \in [bits : BitsSet, period : PeriodSet, K : KSet, tm : TMSet, cplx : BOOLEAN]
        /\ q = [part \in 1..2 |-> [idx |-> 0, set |-> FALSE, m |-> 0, s |-> 0]]
        /\ calls = 0 /\ since = 0 /\ last = <<>> /\ hist = <<>>

Active == Len(hist) < MaxCalls

(* one RealQuantizer.quantize call on data with prefix statistics (m, s) *)
Step(st, m, s) ==
    LET fresh == st.idx = 0
        cm == IF fresh THEN m ELSE st.m
        cs == IF fresh THEN s ELSE st.s
        i1 == st.idx + 1
    IN  [idx |-> IF i1 = cfg.period THEN 0 ELSE i1, set |-> TRUE, m |-> cm, s |-> cs]

(* data of a call: the two-sample prefix m-s, m+s followed by the probes (all equal m when s = 0) *)
Data(m, s) == IF s = 0 THEN [j \in 1..Len(XS) + 2 |-> m]
              ELSE <<m - s, m + s>> \o XS

(* custom: 0 = none, otherwise the custom deviation for the real part (imaginary part: twice that when a pair is given) *)
Quantize(s, custom, pair) ==
    /\ Active
    /\ LET nq == [part \in 1..2 |-> IF part \in Parts THEN Step(q[part], Mean(calls, part), Dev(s, part)) ELSE q[part]]
           cust(part) == IF custom = 0 THEN 0 ELSE IF pair /\ part = 2 THEN 2 * custom ELSE custom
           outp(part) == LET d == Data(Mean(calls, part), Dev(s, part))
                             sd == IF cust(part) # 0 THEN cust(part) ELSE nq[part].s IN
                         [j \in 1..Len(d) |-> Q(d[j], nq[part].m, sd)]
           o == [part \in Parts |-> outp(part)] IN
       /\ q' = nq /\ last' = o /\ calls' = calls + 1 /\ since' = since + 1
       /\ hist' = Append(hist, [act |-> [name |-> "Quantize", s |-> s, custom |-> custom, pair |-> pair, call |-> calls],
                                out |-> o, st |-> nq])
       /\ UNCHANGED cfg

Reset ==
    /\ Active /\ calls > 0
    /\ q' = [part \in 1..2 |-> [idx |-> 0, set |-> FALSE, m |-> 0, s |-> 0]]
    /\ last' = <<>> /\ calls' = calls + 1 /\ since' = 0
    /\ hist' = Append(hist, [act |-> [name |-> "Reset"], out |-> <<>>, st |-> q'])
    /\ UNCHANGED cfg

Done == /\ EmitOn /\ Len(hist) = MaxCalls
        /\ PrintT(ToJson([cfg |-> cfg, steps |-> hist]))
        /\ hist' = Append(hist, [act |-> [name |-> "Done"]])
        /\ UNCHANGED <<cfg, q, calls, since, last>>

QuantizeAny == \E s \in {0, 2, 4}, custom \in {0, 3}, pair \in BOOLEAN :
                   (pair => (cfg.cplx /\ custom # 0)) /\ Quantize(s, custom, pair)

Next == Done \/ QuantizeAny \/ Reset

Spec == Init /\ [][Next]_vars

-----------------------------------------------------------------------------
(* every output lies in the signed b-bit range *)
InRange == \A part \in DOMAIN last : \A j \in 1..Len(last[part]) : \A v \in last[part][j] : v >= Lo /\ v <= Hi

(* outputs are a non-decreasing function of the input (probe values are increasing from position 3 on) *)
Monotone == \A part \in DOMAIN last : \A j \in 3..Len(last[part]) - 1 :
                \A v \in last[part][j], w \in last[part][j + 1] :
                    (Cardinality(last[part][j]) = 1 /\ Cardinality(last[part][j + 1]) = 1) => v <= w

(* the refresh schedule: with k calls since construction/reset the counter is k mod p for p > 0, k otherwise, *)
(* i.e. statistics are refreshed on calls 0, p, 2p, ... and only on the first call for p <= 0                  *)
RefreshSchedule ==
    \A part \in Parts :
        LET k == since IN
        q[part].idx = IF cfg.period > 0 THEN k % cfg.period ELSE k

(* the cached statistics come from the most recent refresh call *)
CachedFromRefreshCall ==
    \A part \in Parts :
        LET k == since IN
        (k > 0) =>
            LET lastRefresh == IF cfg.period > 0 THEN ((k - 1) \div cfg.period) * cfg.period ELSE 0
                c == (calls - k) + lastRefresh IN
            q[part].m = Mean(c, part)

(* zero-variance statistics map everything to the (clipped) target mean *)
ZeroVariance ==
    \A part \in DOMAIN last :
        (hist # <<>> /\ hist[Len(hist)].act.name = "Quantize"
           /\ hist[Len(hist)].act.custom = 0 /\ q[part].s = 0)
        => \A j \in 1..Len(last[part]) : last[part][j] = {Clip(v) : v \in RoundSet(cfg.tm, 4)}
=============================================================================
