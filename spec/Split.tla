-------------------------------- MODULE Split -------------------------------
(***************************************************************************)
(* Splitting utilities (C19).                                               *)
(* SplitBand: a file of N channels is cut into windows of F channels with   *)
(* shift s, in file order: the loop of split_waterfall_generator over an    *)
(* integer window index.  SplitArray: the two nested loops of split_array   *)
(* with their in-bound flags, producing tiles [y0, y1) x [x0, x1).          *)
(***************************************************************************)
EXTENDS Integers, Sequences, FiniteSets, TLC, Json

CONSTANTS MaxN, MaxH, MaxW, EmitOn

VARIABLES job, pc, i, pieces,            \* band split
          y0, y1, x0, x1, yin, xin, tiles
vars == <<job, pc, i, pieces, y0, y1, x0, x1, yin, xin, tiles>>

Min2(a, b) == IF a < b THEN a ELSE b

BandJobs == {[kind |-> "band", N |-> N, F |-> F, s |-> s, T |-> T, Tsel |-> Ts, asc |-> a] :
             N \in 1..MaxN, F \in 1..MaxN, s \in 1..MaxN, T \in {3}, Ts \in {0, 2}, a \in BOOLEAN}
ArrayJobs == {[kind |-> "array", H |-> H, W |-> W, th |-> th, tw |-> tw, sh |-> sh, sw |-> sw, ttrim |-> tt, ftrim |-> ft] :
              H \in 1..MaxH, W \in 1..MaxW, th \in 1..MaxH, tw \in 1..MaxW, sh \in 1..MaxH, sw \in 1..MaxW,
              tt \in BOOLEAN, ft \in BOOLEAN}

Init == /\ job \in {j \in BandJobs : j.F <= j.N} \cup {j \in ArrayJobs : (j.sh = j.th /\ j.sw = j.tw) \/ (j.sh < j.th /\ j.sw <= j.tw)}
        /\ pc = "start" /\ i = 0 /\ pieces = <<>>
        /\ y0 = 0 /\ y1 = 0 /\ x0 = 0 /\ x1 = 0 /\ yin = FALSE /\ xin = FALSE /\ tiles = <<>>

(* ---- band ---- *)
BandStep == /\ job.kind = "band" /\ pc \in {"start", "band"}
            /\ IF i * job.s + job.F <= job.N
               THEN /\ pieces' = Append(pieces, [lo |-> i * job.s, hi |-> i * job.s + job.F])
                    /\ i' = i + 1 /\ pc' = "band"
               ELSE /\ pc' = "done" /\ UNCHANGED <<i, pieces>>
            /\ UNCHANGED <<job, y0, y1, x0, x1, yin, xin, tiles>>

(* ---- array: first tile, then the x loop, then the next row of tiles ---- *)
ArrStart == /\ job.kind = "array" /\ pc = "start"
            /\ y0' = 0 /\ y1' = Min2(job.th, job.H) /\ x0' = 0 /\ x1' = Min2(job.tw, job.W)
            /\ tiles' = <<[y0 |-> 0, y1 |-> Min2(job.th, job.H), x0 |-> 0, x1 |-> Min2(job.tw, job.W)]>>
            /\ yin' = (Min2(job.th, job.H) < job.H) /\ xin' = (Min2(job.tw, job.W) < job.W)
            /\ pc' = "xloop" /\ UNCHANGED <<job, i, pieces>>
ArrX == /\ job.kind = "array" /\ pc = "xloop" /\ xin
        /\ x0' = x0 + job.sw /\ x1' = Min2(x1 + job.sw, job.W)
        /\ tiles' = Append(tiles, [y0 |-> y0, y1 |-> y1, x0 |-> x0 + job.sw, x1 |-> Min2(x1 + job.sw, job.W)])
        /\ xin' = (Min2(x1 + job.sw, job.W) < job.W)
        /\ UNCHANGED <<job, pc, i, pieces, y0, y1, yin>>
ArrY == /\ job.kind = "array" /\ pc = "xloop" /\ ~xin
        /\ IF ~yin THEN pc' = "done" /\ UNCHANGED <<y0, y1, x0, x1, yin, xin, tiles>>
           ELSE /\ y0' = y0 + job.sh /\ y1' = Min2(y1 + job.sh, job.H) /\ x0' = 0 /\ x1' = Min2(job.tw, job.W)
                /\ tiles' = Append(tiles, [y0 |-> y0 + job.sh, y1 |-> Min2(y1 + job.sh, job.H), x0 |-> 0, x1 |-> Min2(job.tw, job.W)])
                /\ yin' = (Min2(y1 + job.sh, job.H) < job.H) /\ xin' = (Min2(job.tw, job.W) < job.W)
                /\ pc' = "xloop"
        /\ UNCHANGED <<job, i, pieces>>

Kept == SelectSeq(tiles, LAMBDA t : (~job.ttrim \/ t.y1 - t.y0 = job.th) /\ (~job.ftrim \/ t.x1 - t.x0 = job.tw))

Emit == /\ EmitOn /\ pc = "done"
        /\ PrintT(ToJson(IF job.kind = "band" THEN [job |-> job, pieces |-> pieces] ELSE [job |-> job, tiles |-> Kept]))
        /\ pc' = "emitted" /\ UNCHANGED <<job, i, pieces, y0, y1, x0, x1, yin, xin, tiles>>
Idle == pc \in {"done", "emitted"} /\ (~EmitOn \/ pc = "emitted") /\ UNCHANGED vars
Next == BandStep \/ ArrStart \/ ArrX \/ ArrY \/ Emit \/ Idle
Spec == Init /\ [][Next]_vars

-----------------------------------------------------------------------------
Finished == pc \in {"done", "emitted"}
(* exactly floor((N - F) / s) + 1 pieces, the i-th covering file channels [i s, i s + F) *)
PieceCount == (Finished /\ job.kind = "band") => Len(pieces) = (job.N - job.F) \div job.s + 1
PieceCovers == job.kind = "band" => \A k \in 1..Len(pieces) : pieces[k].lo = (k - 1) * job.s /\ pieces[k].hi = pieces[k].lo + job.F /\ pieces[k].hi <= job.N
(* with shifts equal to the tile sizes the tiles partition the array, in row-major order *)
Partition ==
    (Finished /\ job.kind = "array" /\ job.sh = job.th /\ job.sw = job.tw) =>
        /\ \A r \in 0..job.H - 1, c \in 0..job.W - 1 :
               Cardinality({k \in 1..Len(tiles) : tiles[k].y0 <= r /\ r < tiles[k].y1 /\ tiles[k].x0 <= c /\ c < tiles[k].x1}) = 1
        /\ \A k \in 1..Len(tiles) - 1 :
               (tiles[k + 1].y0 = tiles[k].y0 /\ tiles[k + 1].x0 = tiles[k].x1) \/ (tiles[k + 1].y0 = tiles[k].y1 /\ tiles[k + 1].x0 = 0)
(* trimming keeps exactly the full-size tiles *)
TrimKeepsFullTiles ==
    (Finished /\ job.kind = "array") =>
        \A k \in 1..Len(tiles) :
            (\E m \in 1..Len(Kept) : Kept[m] = tiles[k]) <=>
                ((~job.ttrim \/ tiles[k].y1 - tiles[k].y0 = job.th) /\ (~job.ftrim \/ tiles[k].x1 - tiles[k].x0 = job.tw))
=============================================================================
