SPECIFICATION Spec
CONSTANTS
  TSet = {2, 3}
  FSet = {3, 4, 5, 6}
  ColsSet = {0, 1, 2, 7}
  EmitOn = TRUE
CHECK_DEADLOCK FALSE
