---------------------------- MODULE BackendTrace ----------------------------
(***************************************************************************)
(* Trace validation of real RawVoltageBackend.record() executions against   *)
(* the step machine of Backend.tla (same arithmetic: windows per sub-block, *)
(* in-place update of num_subblocks, W windows on the first request of an   *)
(* observation and W - 1 afterwards, PFB cache hand-over of taps rows,      *)
(* PKTIDX step).  One trace per record() call, recorded at realistic sizes  *)
(* (1024 branches, 8 taps) by harness/record.py, also under the             *)
(* repository's own tests.  Batch idiom as RawFilesTrace.                   *)
(***************************************************************************)
EXTENDS Integers, Sequences, FiniteSets, TLC, Json, IOUtils

Traces == JsonDeserialize(IOEnv.TRACE_FILE)

VARIABLES tid, l, nsub, W0, start, first, blk, sub, expect, reqn, inBlock
vars == <<tid, l, nsub, W0, start, first, blk, sub, expect, reqn, inBlock>>

C(t) == Traces[t][1]
Ceil(a, b) == (a + b - 1) \div b
U(t) == C(t).T \div C(t).taps

Init == /\ tid \in 1..Len(Traces) /\ l = 2
        /\ nsub = C(tid).S /\ W0 = 0 /\ start = TRUE /\ first = TRUE /\ blk = 0 /\ sub = 0 /\ expect = 0 /\ reqn = 0 /\ inBlock = FALSE
        /\ TLCSet(tid, 2)

Ev == Traces[tid][l]
Is(e) == l <= Len(Traces[tid]) /\ Ev.e = e

(* _make_header: PKTIDX = start value + blk * samples_per_block; then the block is planned *)
HeaderChecks(t, ev, b, ib) == [noblock |-> ~ib, more |-> (C(t).blocks < 0 \/ b < C(t).blocks), pktidx |-> ev.pkt = ev.pkt0 + b * C(t).T]
Header == /\ Is("Header") /\ \A k \in DOMAIN HeaderChecks(tid, Ev, blk, inBlock) : HeaderChecks(tid, Ev, blk, inBlock)[k]
          /\ LET w == Ceil(U(tid), nsub) + 1 IN W0' = w /\ nsub' = Ceil(C(tid).T, C(tid).taps * (w - 1))
          /\ sub' = 0 /\ inBlock' = TRUE /\ l' = l + 1 /\ UNCHANGED <<tid, start, first, blk, expect, reqn>>

SubT == C(tid).taps * (W0 - 1)
LastPartial == (C(tid).T % SubT # 0) /\ sub = nsub - 1
Wnow == IF LastPartial THEN ((C(tid).T % SubT) \div C(tid).taps) + 1 ELSE W0
Request == /\ Is("Request") /\ inBlock /\ expect = 0 /\ sub < nsub
           /\ Ev.start = start
           /\ Ev.n = C(tid).B * C(tid).taps * (IF start THEN Wnow ELSE Wnow - 1)
           /\ Ev.adv = Ev.n /\ Ev.advmin = Ev.n /\ Ev.advmax = Ev.n        \* the source clock and every stream clock advance by exactly n samples
           /\ reqn' = Ev.n /\ start' = FALSE /\ expect' = C(tid).nant * C(tid).pols
           /\ l' = l + 1 /\ UNCHANGED <<tid, nsub, W0, first, blk, sub, inBlock>>

(* channelize with cache for every (antenna, pol): cache is None on the first request of the recording, taps rows after *)
Chan == /\ Is("Chan") /\ expect > 0
        /\ Ev.inlen = reqn
        /\ Ev.cache = (IF first THEN 0 ELSE C(tid).taps * C(tid).B)
        /\ Ev.out = (((Ev.inlen + Ev.cache) \div (C(tid).taps * C(tid).B)) - 1) * C(tid).taps
        /\ expect' = expect - 1
        /\ IF expect = 1 THEN sub' = sub + 1 /\ first' = FALSE ELSE UNCHANGED <<sub, first>>
        /\ l' = l + 1 /\ UNCHANGED <<tid, nsub, W0, start, blk, reqn, inBlock>>

(* the lazy unit-noise estimate of injection onto RAW: a stateless call, no model step *)
ChanNoCache == /\ Is("ChanNoCache") /\ l' = l + 1 /\ UNCHANGED <<tid, nsub, W0, start, first, blk, sub, expect, reqn, inBlock>>

BlockEnd == /\ Is("BlockEnd") /\ inBlock /\ expect = 0 /\ sub = nsub /\ Ev.nsub = nsub
            /\ blk' = blk + 1 /\ inBlock' = FALSE /\ l' = l + 1 /\ UNCHANGED <<tid, nsub, W0, start, first, sub, expect, reqn>>

End == /\ Is("End") /\ ~inBlock /\ (C(tid).blocks < 0 \/ blk = C(tid).blocks)
       /\ l' = l + 1 /\ UNCHANGED <<tid, nsub, W0, start, first, blk, sub, expect, reqn, inBlock>>

(* quantiser events belong to QuantTrace.tla *)
SkipQuant == /\ (Is("Quant") \/ Is("QReset")) /\ l' = l + 1 /\ UNCHANGED <<tid, nsub, W0, start, first, blk, sub, expect, reqn, inBlock>>

Next == Header \/ Request \/ Chan \/ ChanNoCache \/ BlockEnd \/ End \/ SkipQuant
Spec == Init /\ [][Next]_vars

Progress == TLCSet(tid, IF TLCGet(tid) < l THEN l ELSE TLCGet(tid))
Post == \A t \in 1..Len(Traces) :
            \/ TLCGet(t) = Len(Traces[t]) + 1
            \/ PrintT(ToJson([reject |-> t, at |-> TLCGet(t), why |-> {Traces[t][IF TLCGet(t) <= Len(Traces[t]) THEN TLCGet(t) ELSE Len(Traces[t])].e}]))
=============================================================================
