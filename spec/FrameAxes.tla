----------------------------- MODULE FrameAxes ------------------------------
(***************************************************************************)
(* Frame axes and frequency/index conversion (C05) on an integer grid:      *)
(* frequencies in quarter channels (FQ quanta per channel) measured from a   *)
(* world origin, times in TQ quanta per time step.  A frame is              *)
(* [F, T, asc, lo] with lo the world channel of its lowest-frequency column; *)
(* fch1 is the first channel in file order: fmin for ascending frames, fmax  *)
(* for descending ones; in memory the axis always increases.                 *)
(***************************************************************************)
EXTENDS Integers, Sequences, FiniteSets, TLC, Json

CONSTANTS FSet, TSet, LoSet, EmitOn
FQ == 4
TQ == 4

VARIABLES fr, phase, out
vars == <<fr, phase, out>>

Routes == {"sizes", "shape", "data", "quantity", "backend"}

Fmin(f) == f.lo * FQ
Fmax(f) == (f.lo + f.F - 1) * FQ
Fch1(f) == IF f.asc THEN Fmin(f) ELSE Fmax(f)
Fs(f) == [j \in 1..f.F |-> Fmin(f) + (j - 1) * FQ]
Ts(f) == [i \in 1..f.T |-> (i - 1) * TQ]
TsExt(f) == [i \in 1..f.T + 1 |-> (i - 1) * TQ]
(* the time axis after it has been moved k steps later in place (what Cadence.add_signal does temporarily and what a user
   may do with frame.ts): the extended axis is always the current axis plus one more step *)
TsShift(f, k) == [i \in 1..f.T |-> (i - 1 + k) * TQ]
TsExtShift(f, k) == [i \in 1..f.T + 1 |-> (i - 1 + k) * TQ]
Fmid2(f) == Fmin(f) + Fmax(f)                              \* twice the mid frequency
ObsLen(f) == f.T * TQ

(* nearest channel of grid position g (may lie outside the band); both neighbours at an exact half channel *)
Index(f, g) == LET d == g - Fmin(f)  k == d \div FQ  r == d % FQ IN
               IF 2 * r < FQ THEN {k} ELSE IF 2 * r > FQ THEN {k + 1} ELSE {k, k + 1}

(* drift rate between two indices over the frame, as a fraction <<quanta of frequency, quanta of time>> *)
Drift(f, j0, j1) == <<(j1 - j0) * FQ, f.T * TQ>>

Queries(f) == (Fmin(f) - 2 * FQ)..(Fmax(f) + 2 * FQ)

Init == /\ fr \in [F : FSet, T : TSet, asc : BOOLEAN, lo : LoSet, route : Routes, shift : {0, 3}]
        /\ phase = "cfg" /\ out = <<>>

Compute ==
    /\ phase = "cfg"
    /\ out' = [fr |-> fr, fch1 |-> Fch1(fr), fmin |-> Fmin(fr), fmax |-> Fmax(fr), fs |-> Fs(fr), ts |-> Ts(fr),
               tsExt |-> TsExt(fr), tsMoved |-> TsShift(fr, fr.shift), tsExtMoved |-> TsExtShift(fr, fr.shift), fmid2 |-> Fmid2(fr), obsLen |-> ObsLen(fr),
               index |-> [g \in Queries(fr) |-> Index(fr, g)],
               drift |-> [p \in {<<0, fr.F - 1>>, <<fr.F - 1, 0>>, <<0, 0>>} |-> Drift(fr, p[1], p[2])]]
    /\ phase' = "done" /\ UNCHANGED fr
Emit == /\ EmitOn /\ phase = "done" /\ PrintT(ToJson(out)) /\ phase' = "emitted" /\ UNCHANGED <<fr, out>>
Idle == phase \in {"done", "emitted"} /\ (~EmitOn \/ phase = "emitted") /\ UNCHANGED vars
Next == Compute \/ Emit \/ Idle
Spec == Init /\ [][Next]_vars

-----------------------------------------------------------------------------
StrictlyIncreasing == \A j \in 1..fr.F - 1 : Fs(fr)[j] < Fs(fr)[j + 1]
UniformSpacing == \A j \in 1..fr.F - 1 : Fs(fr)[j + 1] - Fs(fr)[j] = FQ
Fch1IsEndpoint == Fch1(fr) = (IF fr.asc THEN Fs(fr)[1] ELSE Fs(fr)[fr.F])
(* index -> frequency -> index is the identity on every channel *)
RoundTrip == \A j \in 1..fr.F : Index(fr, Fs(fr)[j]) = {j - 1}
(* frequency -> index returns a nearest channel *)
Abs(x) == IF x < 0 THEN -x ELSE x
NearestChannel == \A g \in Queries(fr) : \A k \in Index(fr, g) :
                      \A m \in -3..fr.F + 3 : Abs(g - (Fmin(fr) + k * FQ)) <= Abs(g - (Fmin(fr) + m * FQ))
(* the opposite-orientation frame of the same band has the same axes *)
Twin(f) == [f EXCEPT !.asc = ~f.asc]
TwinAxesEqual == Fs(Twin(fr)) = Fs(fr) /\ Ts(Twin(fr)) = Ts(fr) /\ Fmid2(Twin(fr)) = Fmid2(fr)
                 /\ \A g \in Queries(fr) : Index(Twin(fr), g) = Index(fr, g)
(* derived quantities come from the same grid *)
DerivedFromGrid == /\ TsExt(fr)[fr.T + 1] = ObsLen(fr)
                   /\ \A k \in {0, 3} : /\ SubSeq(TsExtShift(fr, k), 1, fr.T) = TsShift(fr, k)
                                        /\ TsExtShift(fr, k)[fr.T + 1] = TsShift(fr, k)[fr.T] + TQ
                   /\ 2 * Fs(fr)[1] + (fr.F - 1) * FQ = Fmid2(fr)
=============================================================================
