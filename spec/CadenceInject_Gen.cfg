SPECIFICATION Spec
CONSTANTS
  Small = FALSE
  EmitOn = TRUE
CHECK_DEADLOCK FALSE
