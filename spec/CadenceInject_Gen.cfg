SPECIFICATION Spec
CONSTANTS
  Small = FALSE
  Mix = FALSE
  EmitOn = TRUE
CHECK_DEADLOCK FALSE
