---------------------------- MODULE Registration ----------------------------
(***************************************************************************)
(* Voltage frequency registration (C07) over integers.  The unit is half a *)
(* fine bin: q = |chan_bw| / (2 L).  Positions are measured from fch1 in the *)
(* direction of the band (so both orientations share the arithmetic and the *)
(* sign s = +-1 only enters when sky frequencies are formed).               *)
(*   coarse channel c centre      : 2 L c                                   *)
(*   recorded channels            : start .. start + nch - 1                 *)
(*   OBSFREQ (header)             : 2 L start + L (nch - 1)                  *)
(*   file channel j centre (hdr)  : OBSFREQ + (2 j - (nch - 1)) L            *)
(*   fine bin b of an L-point shifted FFT (hdr) : centre + 2 (b - L / 2)    *)
(***************************************************************************)
EXTENDS Integers, Sequences, FiniteSets, TLC, Json

CONSTANTS BSet, LSet, EmitOn

VARIABLES cfg,     \* [B, L, asc, start, nch, g (tone position in quanta), T (spectra recorded), intf]
          phase, out
vars == <<cfg, phase, out>>

ObsFreq(c) == 2 * c.L * c.start + c.L * (c.nch - 1)
ChanCentreHdr(c, j) == ObsFreq(c) + (2 * j - (c.nch - 1)) * c.L
BinCentreHdr(c, j, b) == ChanCentreHdr(c, j) + 2 * (b - c.L \div 2)

(* nearest coarse channel of a position (ties excluded by construction: g is never on a channel edge) *)
Coarse(c, g) == (g + c.L) \div (2 * c.L)
Offset(c, g) == g - 2 * c.L * Coarse(c, g)                 \* in -L .. L-1
(* fine bins whose centre is within half a bin of the tone: one for on-bin tones, two when between bins *)
Bins(c, g) == LET h == Offset(c, g) IN
              IF h % 2 = 0 THEN {c.L \div 2 + h \div 2}
              ELSE {c.L \div 2 + (h - 1) \div 2, c.L \div 2 + (h + 1) \div 2} \cap (0..c.L - 1)

Tones(B, L, start, nch) ==
    {g \in (2 * L * start - L + 1)..(2 * L * (start + nch - 1) + L - 1) :
        /\ Coarse([L |-> L], g) # 0                          \* not the channel that straddles DC
        /\ (g % (2 * L)) # 0                                 \* not exactly on a coarse-channel centre
        /\ (g % (2 * L)) \notin {L - 1, L, L + 1}}           \* not on / within half a fine bin of a channel edge
                                                             \* (aliased by the critically sampled PFB: not judged)

Init == /\ cfg \in UNION {UNION {UNION {[B : {B}, L : {L}, asc : BOOLEAN, start : {st}, nch : {n}, g : Tones(B, L, st, n),
                                       T : {4 * L, 5 * L + 4}, intf : {1, 2}]
                                      : n \in 1..(B \div 2 - st)} : st \in 0..(B \div 2 - 1)} : <<B, L>> \in BSet \X LSet}
        /\ phase = "cfg" /\ out = <<>>

Compute ==
    /\ phase = "cfg"
    /\ out' = [cfg |-> cfg, obsfreq |-> ObsFreq(cfg), chan |-> Coarse(cfg, cfg.g) - cfg.start, bins |-> Bins(cfg, cfg.g),
               rows |-> (cfg.T \div cfg.L) \div cfg.intf, cols |-> cfg.nch * cfg.L]
    /\ phase' = "done" /\ UNCHANGED cfg
Emit == /\ EmitOn /\ phase = "done" /\ PrintT(ToJson(out)) /\ phase' = "emitted" /\ UNCHANGED <<cfg, out>>
Idle == phase \in {"done", "emitted"} /\ (~EmitOn \/ phase = "emitted") /\ UNCHANGED vars
Next == Compute \/ Emit \/ Idle
Spec == Init /\ [][Next]_vars

-----------------------------------------------------------------------------
Abs(x) == IF x < 0 THEN -x ELSE x
(* the header alone locates the tone: some expected bin, the frequency the header assigns to it is within half a fine
   bin (1 quantum) of the tone, and it lies in a recorded channel *)
HeaderLocatesTone ==
    phase # "cfg" =>
        /\ out.chan \in 0..cfg.nch - 1
        /\ out.bins # {}
        /\ \A b \in out.bins : Abs(BinCentreHdr(cfg, out.chan, b) - cfg.g) <= 1

(* reading the parameters back with the same first-channel index reproduces fch1 (= position 0) *)
ParamsRoundTrip == ObsFreq(cfg) - (2 * cfg.start + (cfg.nch - 1)) * cfg.L = 0

(* the quick-look reducer: floor(floor(T / L) / int_factor) rows of nch * L columns; column of (j, b) is j L + b *)
ReducerShape == phase # "cfg" => (out.rows * cfg.intf * cfg.L <= cfg.T /\ out.cols = cfg.nch * cfg.L)
=============================================================================
