SPECIFICATION Spec
CONSTANTS
  FSet = {7, 12}
  TSet = {3, 4}
  Focus = "all"
  EmitOn = TRUE
CHECK_DEADLOCK FALSE
