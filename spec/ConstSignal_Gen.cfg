SPECIFICATION Spec
CONSTANTS
  FSet = {7, 12}
  TSet = {3, 4}
  EmitOn = TRUE
CHECK_DEADLOCK FALSE
