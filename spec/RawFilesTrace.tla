--------------------------- MODULE RawFilesTrace ----------------------------
(***************************************************************************)
(* Trace validation of recorded GUPPI RAW files against RawFiles/Backend:   *)
(* each trace is one real recording as seen by the harness's independent    *)
(* parser: a Begin event with the configuration, one Block event per block  *)
(* in file order, an End event.  Batch idiom: all traces of a run in one    *)
(* JSON file, one initial state per trace, furthest position per trace kept *)
(* in a TLC register, rejects printed by the POSTCONDITION.                 *)
(***************************************************************************)
EXTENDS Integers, Sequences, TLC, Json, IOUtils

Traces == JsonDeserialize(IOEnv.TRACE_FILE)

VARIABLES tid, l, file, idx, count
vars == <<tid, l, file, idx, count>>

Cfg(t) == Traces[t][1]
Pad(cards, dio) == IF dio # 0 THEN (512 - ((80 * cards) % 512)) % 512 ELSE 0

Init == /\ tid \in 1..Len(Traces) /\ l = 2 /\ file = 0 /\ idx = 0 /\ count = 0
        /\ TLCSet(tid, 2)

(* the conjuncts a Block event must satisfy, named so that a rejection can say which one failed *)
BlockChecks(t, ev, f, i, c) ==
    [position   |-> ev.file = f /\ ev.idx = i,
     more       |-> c < Cfg(t).blocks,
     padding    |-> ev.pad = Pad(ev.cards, ev.directio),
     blocsize   |-> ev.datalen = Cfg(t).blocsize /\ ev.blocsize = Cfg(t).blocsize,
     pktidx     |-> ev.pktidx = Cfg(t).pkt0 + c * Cfg(t).spb,
     owned      |-> ev.owned,
     usercards  |-> ev.user]
AllTrue(r) == \A k \in DOMAIN r : r[k]

Block == /\ l <= Len(Traces[tid]) /\ Traces[tid][l].e = "Block"
         /\ AllTrue(BlockChecks(tid, Traces[tid][l], file, idx, count))
         /\ count' = count + 1
         /\ IF idx + 1 = Cfg(tid).bpf THEN file' = file + 1 /\ idx' = 0 ELSE file' = file /\ idx' = idx + 1
         /\ l' = l + 1 /\ UNCHANGED tid

EndChecks(t, ev, c) ==
    [allblocks |-> c = Cfg(t).blocks,
     nfiles    |-> ev.nfiles = (Cfg(t).blocks + Cfg(t).bpf - 1) \div Cfg(t).bpf]

End == /\ l <= Len(Traces[tid]) /\ Traces[tid][l].e = "End"
       /\ AllTrue(EndChecks(tid, Traces[tid][l], count))
       /\ l' = l + 1 /\ UNCHANGED <<tid, file, idx, count>>

Next == Block \/ End
Spec == Init /\ [][Next]_vars

Progress == TLCSet(tid, IF TLCGet(tid) < l THEN l ELSE TLCGet(tid))

(* the model state is a function of the position here, so the failing conjuncts can be named afterwards *)
Why(t, p) == LET ev == Traces[t][p]  c == p - 2 IN
             IF ev.e = "Block" THEN LET r == BlockChecks(t, ev, c \div Cfg(t).bpf, c % Cfg(t).bpf, c) IN {k \in DOMAIN r : ~r[k]}
             ELSE IF ev.e = "End" THEN LET r == EndChecks(t, ev, c) IN {k \in DOMAIN r : ~r[k]}
             ELSE {"unknown-event"}

Post == \A t \in 1..Len(Traces) :
            \/ TLCGet(t) = Len(Traces[t]) + 1
            \/ PrintT(ToJson([reject |-> t, at |-> TLCGet(t), why |-> Why(t, TLCGet(t))]))
=============================================================================
