SPECIFICATION Spec
CONSTANTS
  RateSet = {1024, 1000000, 2500000, 187500000}
  BSet = {6, 8, 16, 1024}
  TapsSet = {2, 3, 8}
  NchSet = {1, 3, 4}
  NantSet = {1, 2}
  PolsSet = {1, 2}
  BitsSet = {4, 8}
  MultSet = {1, 2, 5}
  BlocksSet = {1, 2, 3, 10}
  EmitOn = FALSE
INVARIANT SpbExact
INVARIANT DurationBlocks
INVARIANT TotalsConsistent
INVARIANT HelperBlockSizeAdmitted
CHECK_DEADLOCK TRUE
