------------------------------ MODULE Backend -------------------------------
(***************************************************************************)
(* RawVoltageBackend.record / collect_data_block as a step machine (C02,   *)
(* C04 writer side, C12 recording history, C20 accounting).                *)
(*                                                                         *)
(* Units: a "row" is num_branches consecutive voltage samples = one PFB     *)
(* input row; output spectrum n is the one whose first input row is n.     *)
(* A block holds T = taps*U spectra per channel; bytes of one channel row  *)
(* are modelled explicitly (time, polarisation, re/im or packed nibbles).  *)
(* One action per step of the code: RecordBegin, OpenFile, WriteHeader,    *)
(* PlanBlock, Request, Process(pol), WriteBlock, CloseFile, RecordEnd.     *)
(***************************************************************************)
EXTENDS Integers, Sequences, FiniteSets, TLC, Json

CONSTANTS TapsSet, USet, SSet, BlocksSet, BpfSet, PolsSet, BitsSet, NRec, EmitOn

VARIABLES cfg,        \* [taps, U, S, blocks, bpf, pols, bits, dict]  dict in {"default","same","fresh"}
          pc, rec, fileIdx, blkInFile, blk, sub,
          nsub,       \* self.num_subblocks (mutated by PlanBlock, survives recordings)
          W0,         \* windows per regular sub-block (+1)
          startObs, clock,        \* antenna: start flag, rows delivered so far
          base,       \* antenna clock (rows) at the start of the current recording
          cache,      \* cache[p]: PFB tail cache, sequence of row ids ( <<>> = None )
          nextSpec,   \* number of spectra produced so far per polarisation
          cur,        \* cur[p]: spectra ids produced by the current sub-block
          buf,        \* bytes of one channel row of the block being assembled
          dbl,        \* bytes written more than once (must stay 0)
          pkt,        \* PKTIDX in the header dictionary in use
          defPkt, userPkt,   \* PKTIDX left behind in the shared default dict / the caller's dict
          files,      \* files[i] = sequence of block records
          reqs,       \* requests made to the antenna in this recording
          done,       \* finished recordings (observation only)
          abort       \* [n : aborted attempts so far, rows : rows they drew, before : recording they preceded, at : request]

vars == <<cfg, pc, rec, fileIdx, blkInFile, blk, sub, nsub, W0, startObs, clock, base, cache, nextSpec, cur, buf,
          dbl, pkt, defPkt, userPkt, files, reqs, done, abort>>

T == cfg.taps * cfg.U                          \* spectra per block (samples_per_block)
BPS == (2 * cfg.pols * cfg.bits) \div 8          \* bytes per time sample of one channel
RowBytes == T * BPS
Step == cfg.bits \div 4                        \* byte distance between re of consecutive pols (2 or 1)
Ceil(a, b) == (a + b - 1) \div b
SubT == cfg.taps * (W0 - 1)                    \* spectra per regular sub-block
SubLen == SubT * BPS                           \* its bytes
Empty == <<-1, -1, "none">>

Init == /\ cfg \in [taps : TapsSet, U : USet, S : SSet, blocks : BlocksSet, bpf : BpfSet, pols : PolsSet,
                    bits : BitsSet, dict : {"default", "same", "fresh"}]
        /\ pc = "idle" /\ rec = 0 /\ fileIdx = 0 /\ blkInFile = 0 /\ blk = 0 /\ sub = 0
        /\ nsub = cfg.S /\ W0 = 0
        /\ startObs = TRUE /\ clock = 0 /\ base = 0
        /\ cache = [p \in 1..2 |-> <<>>] /\ nextSpec = [p \in 1..2 |-> 0] /\ cur = [p \in 1..2 |-> <<>>]
        /\ buf = <<>> /\ dbl = 0
        /\ pkt = 0 /\ defPkt = 0 /\ userPkt = 0
        /\ files = <<>> /\ reqs = <<>> /\ done = <<>>
        /\ abort = [n |-> 0, rows |-> 0, before |-> 0, at |-> 0]

NumFiles == Ceil(cfg.blocks, cfg.bpf)
BlocksInFile(i) == IF i = NumFiles - 1 /\ cfg.blocks % cfg.bpf # 0 THEN cfg.blocks % cfg.bpf ELSE cfg.bpf

(* record(): header dictionary chosen, antenna reset_start, every cache reset *)
RecordBegin ==
    /\ pc = "idle" /\ rec < NRec
    /\ rec' = rec + 1 /\ pc' = "file"
    /\ pkt' = 0                                 \* every recording starts its packet index at the caller's value (0)
    /\ startObs' = TRUE /\ base' = clock        \* antenna_source.reset_start(): clock kept
    /\ cache' = [p \in 1..2 |-> <<>>] /\ nextSpec' = [p \in 1..2 |-> 0]
    /\ fileIdx' = 0 /\ blkInFile' = 0 /\ blk' = 0 /\ sub' = 0
    /\ files' = <<>> /\ reqs' = <<>>
    /\ UNCHANGED <<cfg, nsub, W0, clock, cur, buf, dbl, defPkt, userPkt, done, abort>>

OpenFile ==
    /\ pc = "file" /\ fileIdx < NumFiles
    /\ files' = Append(files, <<>>) /\ blkInFile' = 0 /\ pc' = "header"
    /\ UNCHANGED <<cfg, rec, fileIdx, blk, sub, nsub, W0, startObs, clock, base, cache, nextSpec, cur, buf, dbl, pkt, defPkt, userPkt, reqs, done, abort>>

(* _make_header: cards written with the current PKTIDX, then PKTIDX += samples_per_block *)
WriteHeader ==
    /\ pc = "header" /\ blkInFile < BlocksInFile(fileIdx)
    /\ files' = [files EXCEPT ![fileIdx + 1] = Append(@, [pktidx |-> pkt, first |-> -1, bytes |-> <<>>])]
    /\ pkt' = pkt + T
    /\ pc' = "plan"
    /\ UNCHANGED <<cfg, rec, fileIdx, blkInFile, blk, sub, nsub, W0, startObs, clock, base, cache, nextSpec, cur, buf, dbl, defPkt, userPkt, reqs, done, abort>>

(* collect_data_block prologue: W, subblock_T, and the in-place update of num_subblocks *)
PlanBlock ==
    /\ pc = "plan"
    /\ LET w == Ceil(cfg.U, nsub) + 1              \* ceil(T / taps / num_subblocks) + 1
           st == cfg.taps * (w - 1) IN
       /\ W0' = w /\ nsub' = Ceil(T, st)
    /\ sub' = 0 /\ buf' = [b \in 0..RowBytes - 1 |-> Empty] /\ pc' = "request"
    /\ UNCHANGED <<cfg, rec, fileIdx, blkInFile, blk, startObs, clock, base, cache, nextSpec, cur, dbl, pkt, defPkt, userPkt, files, reqs, done, abort>>

LastPartial == (T % SubT # 0) /\ sub = nsub - 1
Wnow == IF LastPartial THEN ((T % SubT) \div cfg.taps) + 1 ELSE W0

(* antenna_source.get_samples: W windows at the start of the observation, W-1 afterwards *)
Request ==
    /\ pc = "request" /\ sub < nsub
    /\ LET rows == cfg.taps * (IF startObs THEN Wnow ELSE Wnow - 1)
           new == [j \in 1..rows |-> clock + j - 1] IN
       /\ reqs' = Append(reqs, [rows |-> rows, start |-> startObs])
       /\ clock' = clock + rows /\ startObs' = FALSE
       \* channelize with cache for every polarisation: x = cache \o new, ((len/taps) - 1)*taps spectra, cache := tail
       /\ cur' = [p \in 1..2 |-> IF p > cfg.pols THEN <<>> ELSE
                     LET x == cache[p] \o new  n == ((Len(x) \div cfg.taps) - 1) * cfg.taps IN [j \in 1..n |-> x[j]]]
       /\ cache' = [p \in 1..2 |-> IF p > cfg.pols THEN <<>> ELSE
                     LET x == cache[p] \o new IN SubSeq(x, Len(x) - cfg.taps + 1, Len(x))]
    /\ pc' = "store"
    /\ UNCHANGED <<cfg, rec, fileIdx, blkInFile, blk, sub, nsub, W0, base, nextSpec, buf, dbl, pkt, defPkt, userPkt, files, done, abort>>

(* the t_idx writes of one sub-block, all polarisations *)
Writes ==
    UNION {UNION {IF cfg.bits = 8
                  THEN {<<sub * SubLen + Step * (p - 1) + r * Step * cfg.pols, <<cur[p][r + 1], p, "re">> >>,
                        <<sub * SubLen + Step * (p - 1) + r * Step * cfg.pols + 1, <<cur[p][r + 1], p, "im">> >>}
                  ELSE {<<sub * SubLen + Step * (p - 1) + r * Step * cfg.pols, <<cur[p][r + 1], p, "reim">> >>}
                  : r \in 0..Len(cur[p]) - 1} : p \in 1..cfg.pols}

Store ==
    /\ pc = "store"
    /\ \A w \in Writes : w[1] \in 0..RowBytes - 1          \* an out-of-range index would raise in numpy
    /\ buf' = [b \in 0..RowBytes - 1 |-> IF \E w \in Writes : w[1] = b THEN (CHOOSE w \in Writes : w[1] = b)[2] ELSE buf[b]]
    /\ dbl' = dbl + Cardinality({b \in 0..RowBytes - 1 : buf[b] # Empty /\ \E w \in Writes : w[1] = b})
                  + (Cardinality(Writes) - Cardinality({w[1] : w \in Writes}))
    /\ nextSpec' = [p \in 1..2 |-> nextSpec[p] + Len(cur[p])]
    /\ sub' = sub + 1
    /\ pc' = IF sub + 1 < nsub THEN "request" ELSE "write"
    /\ UNCHANGED <<cfg, rec, fileIdx, blkInFile, blk, nsub, W0, startObs, clock, base, cache, cur, pkt, defPkt, userPkt, files, reqs, done, abort>>

WriteBlock ==
    /\ pc = "write"
    /\ files' = [files EXCEPT ![fileIdx + 1][blkInFile + 1].first = blk * T,
                              ![fileIdx + 1][blkInFile + 1].bytes = buf]
    /\ blk' = blk + 1 /\ blkInFile' = blkInFile + 1
    /\ pc' = IF blkInFile + 1 < BlocksInFile(fileIdx) THEN "header" ELSE "close"
    /\ UNCHANGED <<cfg, rec, fileIdx, sub, nsub, W0, startObs, clock, base, cache, nextSpec, cur, buf, dbl, pkt, defPkt, userPkt, reqs, done, abort>>

CloseFile ==
    /\ pc = "close"
    /\ fileIdx' = fileIdx + 1
    /\ pc' = IF fileIdx + 1 < NumFiles THEN "file" ELSE "end"
    /\ UNCHANGED <<cfg, rec, blkInFile, blk, sub, nsub, W0, startObs, clock, base, cache, nextSpec, cur, buf, dbl, pkt, defPkt, userPkt, files, reqs, done, abort>>

(* the antenna source raises instead of delivering the n-th request of a recording (a user source failing, Ctrl-C ...):
   record() propagates the exception; whatever the attempt left behind (PFB tail caches, quantiser statistics, the
   updated num_subblocks, open block) must not matter to the next record(), which starts like any other *)
Abort ==
    /\ pc = "request" /\ sub < nsub /\ abort.n = 0 /\ Len(reqs) \in {1, 2}
    /\ abort' = [n |-> 1, rows |-> clock - base, before |-> rec, at |-> Len(reqs)]
    /\ pc' = "idle" /\ rec' = rec - 1
    /\ UNCHANGED <<cfg, fileIdx, blkInFile, blk, sub, nsub, W0, startObs, clock, base, cache, nextSpec, cur, buf,
                   dbl, pkt, defPkt, userPkt, files, reqs, done>>

Summary == [rec |-> rec, nsub |-> nsub, clock |-> clock,
            reqs |-> reqs,
            files |-> [i \in 1..Len(files) |-> [j \in 1..Len(files[i]) |-> [pktidx |-> files[i][j].pktidx, first |-> files[i][j].first]]],
            rowsDrawn |-> LET F[k \in 0..Len(reqs)] == IF k = 0 THEN 0 ELSE F[k - 1] + reqs[k].rows IN F[Len(reqs)],
            pktstop |-> cfg.blocks * T, blocks |-> cfg.blocks, spb |-> T, abort |-> abort]

RecordEnd ==
    /\ pc = "end"
    /\ done' = Append(done, Summary)
    /\ pc' = "idle"
    \* what is left behind in dictionaries the next recording may see (must not matter: pkt' = 0 at RecordBegin)
    /\ defPkt' = IF cfg.dict = "default" THEN pkt ELSE defPkt
    /\ userPkt' = IF cfg.dict = "same" THEN pkt ELSE userPkt
    /\ UNCHANGED <<cfg, rec, fileIdx, blkInFile, blk, sub, nsub, W0, startObs, clock, base, cache, nextSpec, cur, buf, dbl, pkt, files, reqs, abort>>

Emit == /\ EmitOn /\ pc = "idle" /\ rec = NRec /\ done # <<>> /\ Len(done) = NRec
        /\ PrintT(ToJson([cfg |-> cfg, recs |-> done]))
        /\ done' = <<>>
        /\ UNCHANGED <<cfg, pc, rec, fileIdx, blkInFile, blk, sub, nsub, W0, startObs, clock, base, cache, nextSpec, cur, buf,
                       dbl, pkt, defPkt, userPkt, files, reqs, abort>>

Finished == pc = "idle" /\ rec = NRec /\ (~EmitOn \/ done = <<>>) /\ UNCHANGED vars   \* explicit terminal stutter

Next == Finished \/ RecordBegin \/ OpenFile \/ WriteHeader \/ PlanBlock \/ Request \/ Abort \/ Store \/ WriteBlock \/ CloseFile
        \/ RecordEnd \/ Emit

Spec == Init /\ [][Next]_vars

-----------------------------------------------------------------------------
(* the standard GUPPI layout of one channel row: time-major, then polarisation, then re/im (4-bit: one byte) *)
ExpByte(k, b) == LET t == b \div BPS  o == b % BPS IN
                 IF cfg.bits = 8 THEN <<base + k * T + t, (o \div 2) + 1, IF o % 2 = 0 THEN "re" ELSE "im">>
                 ELSE <<base + k * T + t, o + 1, "reim">>

(* C02: every byte of every finished block holds exactly the spectrum/pol/component the standard layout says, *)
(* with block k holding spectra k*T .. (k+1)*T-1: nothing lost, duplicated or re-ordered across sub-block,     *)
(* block and file boundaries                                                                                  *)
LayoutIsGuppi ==
    \A i \in 1..Len(files) : \A j \in 1..Len(files[i]) :
        files[i][j].first # -1 =>
            LET k == files[i][j].first \div T IN
            \A b \in 0..RowBytes - 1 : files[i][j].bytes[b] = ExpByte(k, b)

NoDoubleWrite == dbl = 0

(* block k of a recording is the (k mod bpf)-th block of file k div bpf *)
BlocksPerFile ==
    \A i \in 1..Len(files) : \A j \in 1..Len(files[i]) :
        files[i][j].first # -1 => files[i][j].first = ((i - 1) * cfg.bpf + (j - 1)) * T

(* PKTIDX advances by samples-per-block from block to block and starts from the caller's value in EVERY recording *)
PktIdxStep ==
    \A i \in 1..Len(files) : \A j \in 1..Len(files[i]) :
        files[i][j].pktidx = ((i - 1) * cfg.bpf + (j - 1)) * T

(* sub-blocks partition the block: after planning, nsub regular-or-last sub-blocks cover T exactly *)
SubblocksPartitionBlock ==
    pc \in {"request", "store", "write"} =>
        /\ (nsub - 1) * SubT < T /\ T <= nsub * SubT

(* re-planning with the updated num_subblocks changes nothing (the value is a fixed point) *)
NumSubblocksIdempotent ==
    pc \in {"request", "store", "write"} => (Ceil(cfg.U, nsub) + 1 = W0)

(* C20: a finished recording of n blocks has drawn n*T + taps rows, and the clock moved by exactly that *)
SamplesDrawn ==
    \A k \in 1..Len(done) : done[k].rowsDrawn = cfg.blocks * T + cfg.taps

ClockAdvance ==
    \A k \in 1..Len(done) : done[k].clock = k * (cfg.blocks * T + cfg.taps)
                                            + (IF done[k].abort.n = 1 /\ done[k].abort.before <= k THEN done[k].abort.rows ELSE 0)

(* the PFB cache hands over exactly taps rows between consecutive requests *)
CacheHandover == \A p \in 1..cfg.pols : (~startObs) => Len(cache[p]) = cfg.taps

(* C12: a recording's observable summary does not depend on earlier recordings (clock offset aside) *)
HistoryIndependence ==
    \A k \in 1..Len(done) :
        /\ done[k].files = done[1].files
        /\ done[k].reqs = done[1].reqs
        /\ done[k].nsub = done[1].nsub

Terminates == <>(pc = "idle" /\ rec = NRec)
=============================================================================
