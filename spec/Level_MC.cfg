SPECIFICATION Spec
CONSTANTS
  EmitOn = FALSE
INVARIANT FoldedIsDistanceToBin
CHECK_DEADLOCK TRUE
