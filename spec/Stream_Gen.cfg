SPECIFICATION Spec
CONSTANTS
  MaxReq = 4
  MaxOps = 3
  T0Set = {0, 6}
  EmitOn = TRUE
CHECK_DEADLOCK FALSE
