SPECIFICATION Spec
CONSTANTS
  MaxReq = 4
  MaxOps = 3
  EmitOn = TRUE
CHECK_DEADLOCK FALSE
