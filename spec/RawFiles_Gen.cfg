SPECIFICATION Spec
CONSTANTS
  CardsSet <- CardsAll
  MaxFiles = 3
  BpfSet = {1, 2, 3, 9}
  EmitOn = TRUE
CHECK_DEADLOCK FALSE
