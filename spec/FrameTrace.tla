----------------------------- MODULE FrameTrace ------------------------------
(***************************************************************************)
(* Trace validation of real setigen.Frame executions (recorded by          *)
(* harness/record_frame.py at the return of every outermost public call,    *)
(* also under the repository's own tests) against the noise-estimate state  *)
(* machine of Noise.tla (C11), the "injection only adds, and only to the    *)
(* data" clauses of C06 and the "derived frames keep the parent's           *)
(* registration and hold a copy" clauses of C17.                            *)
(*                                                                         *)
(* Since the persistence extension the module also tracks, per frame, the   *)
(* digest of the pixel array its last recorded call left (`dig`): a call    *)
(* that finds other pixels than that was preceded by a write through        *)
(* ANOTHER frame -- the aliasing that C12 ("a copy is fully independent")   *)
(* and C17 ("derived frames hold a copy") exclude, however many calls       *)
(* later it surfaces -- and, per file path, what the last successful save   *)
(* put there (`file`): a frame constructed from that path owes the saved     *)
(* shape, float32 pixels, orientation and source name (compared here, as     *)
(* exact items) and the saved axes / start time (C03; float items projected  *)
(* by the recorder against its snapshot of the same generation).            *)
(*                                                                         *)
(* TLC evaluates no floats.  The recorder projects every numeric clause     *)
(* onto a boolean (delta_ok, is_param, is_reest, value_ok, keeps); what         *)
(* this module decides is WHICH of them a call owed, from the tracked state *)
(* of the frame it was made on: the estimate a frame holds ("none yet" or    *)
(* the exact pair of floats, carried as their repr strings) must be the one  *)
(* the previous event on that frame left behind, the first noise on a frame  *)
(* without estimate owes the requested parameters, any later one the         *)
(* re-estimate, signal injection and queries owe an unchanged estimate.      *)
(***************************************************************************)
EXTENDS Integers, Sequences, FiniteSets, TLC, Json, IOUtils

Traces == JsonDeserialize(IOEnv.TRACE_FILE)

VARIABLES tid, l, bad,
          known,    \* frame ids seen so far
          est,      \* frame id -> [zero, m, s]: the estimate the last event on that frame left
          dig,      \* frame id -> digest of the pixels the last event on that frame left ("?" = not tracked)
          file,     \* path key -> [gen, sig]: number of saves so far and what the last one wrote
          mrate     \* frame id -> the drift rate in that frame's own bookkeeping dictionary ("none", a float's repr, "?" = not tracked)
vars == <<tid, l, bad, known, est, dig, file, mrate>>

Evs == Traces[tid].ev
E   == Evs[l]
Unknown == [zero |-> FALSE, m |-> "?", s |-> "?"]
NoSig   == [fmt |-> "?", T |-> 0, F |-> 0, asc |-> FALSE, src |-> "?", d32 |-> "?"]
Failing(r) == {k \in DOMAIN r : ~r[k]}

Init == /\ tid \in 1..Len(Traces) /\ l = 1 /\ bad = {} /\ known = {}
        /\ est = [f \in 1..Traces[tid].h.nf |-> Unknown]
        /\ dig = [f \in 1..Traces[tid].h.nf |-> "?"]
        /\ file = [p \in 1..Traces[tid].h.np |-> [gen |-> 0, sig |-> NoSig]]
        /\ mrate = [f \in 1..Traces[tid].h.nf |-> "?"]
        /\ TLCSet(tid, <<1, {}>>)

Cont(f, before) == f \notin known \/ est[f] = before      \* a frame first seen mid-life (copy, unpickled, loaded) is adopted

\* judged on driver traces only (h.strict): a repository test may assign to frame.data directly between two calls
ContD(f, before) == ~Traces[tid].h.strict \/ f \notin known \/ dig[f] = "?" \/ dig[f] = before

Step(checks, f, after) ==
    IF Failing(checks) # {} THEN /\ bad' = Failing(checks) /\ UNCHANGED <<tid, l, known, est, dig>>
    ELSE /\ bad' = {} /\ l' = l + 1 /\ known' = known \cup {f} /\ est' = [est EXCEPT ![f] = after]
         /\ dig' = [dig EXCEPT ![f] = E.dig1] /\ UNCHANGED tid

\* A frame constructed from a whole file (how = "file") or unpickled from one (how = "pickle").  What it owes depends on
\* what the recorded history put at that path: nothing but self-consistency for a file of unknown origin.
Saved    == file[E.path].sig
FromSave == E.how \in {"file", "pickle"} /\ Saved.fmt # "?" /\ ((E.how = "pickle") <=> (Saved.fmt = "pickle"))
Create ==
    /\ l <= Len(Evs) /\ bad = {} /\ E.e = "Create"
    /\ UNCHANGED file /\ mrate' = [mrate EXCEPT ![E.fid] = E.rate]
    /\ Step([C11_fresh_frame_has_no_estimate |-> (E.how = "sizes") => (E.after.zero /\ E.data_zero),
             C11_degrees_of_freedom          |-> E.k_ok,
             C05_axes_match_shape            |-> E.axes_ok,
             C05_axes_on_uniform_grid        |-> E.grid_ok,
             cont_file                       |-> (E.how \in {"file", "pickle"}) => E.gen = file[E.path].gen,
             C03_loaded_shape                |-> FromSave => (E.sig.T = Saved.T /\ E.sig.F = Saved.F),
             C03_loaded_pixels_float32       |-> FromSave => E.sig.d32 = Saved.d32,
             C03_loaded_orientation          |-> FromSave => E.sig.asc = Saved.asc,
             C03_loaded_source_name          |-> FromSave => E.sig.src = Saved.src,
             C03_loaded_axes_and_resolution  |-> FromSave => E.axes_close,
             C03_loaded_start_time           |-> FromSave => E.tstart_close,
             C03_helpers_report_file_axes    |-> (E.how = "file") => E.helpers_ok,
             C12_unpickled_equals_original   |-> (FromSave /\ E.how = "pickle") => E.exact_ok], E.fid, E.after)

\* get_noise_stats / get_total_stats / get_params / get_metadata: read-only; what they report is the state the frame's own
\* recorded calls left (estimate, bookkeeping rate), and they change nothing
Info ==
    /\ l <= Len(Evs) /\ bad = {} /\ E.e = "Info"
    /\ UNCHANGED <<file, mrate>>
    /\ Step([cont_estimate                      |-> Cont(E.fid, E.before),
             C12_data_changed_only_by_own_calls |-> ContD(E.fid, E.dig0),
             C11_query_leaves_estimate          |-> E.after = E.before /\ E.dig1 = E.dig0 /\ E.axes_same,
             C11_noise_stats_report_estimate    |-> (E.src = "get_noise_stats" /\ E.st = "ok") => E.reported = E.before,
             C05_params_report_shape            |-> E.value_ok,
             C17_metadata_is_own                |-> (Traces[tid].h.strict /\ E.src = "get_metadata" /\ E.fid \in known /\ mrate[E.fid] # "?")
                                                       => E.rate = mrate[E.fid]], E.fid, E.after)

\* add_metadata / update_metadata: the only recorded calls that change a frame's bookkeeping dictionary
Meta ==
    /\ l <= Len(Evs) /\ bad = {} /\ E.e = "Meta"
    /\ bad' = {} /\ l' = l + 1 /\ mrate' = [mrate EXCEPT ![E.fid] = E.rate]
    /\ UNCHANGED <<tid, known, est, dig, file>>

Save ==
    /\ l <= Len(Evs) /\ bad = {} /\ E.e = "Save"
    /\ UNCHANGED mrate
    /\ Step([cont_estimate            |-> Cont(E.fid, E.before),
             C12_data_changed_only_by_own_calls |-> ContD(E.fid, E.dig0),
             cont_file                |-> E.gen = file[E.path].gen + 1,
             \* what the file is compared with is the frame the caller holds: writing it moves no axis and no pixel
             \* (to float32 precision, the precision C03 speaks of)
             C03_save_leaves_frame    |-> E.axes_same /\ E.pix32_same], E.fid, E.after)
    /\ file' = IF bad' = {} THEN [file EXCEPT ![E.path] = [gen |-> E.gen, sig |-> IF E.st = "ok" THEN E.sig ELSE NoSig]] ELSE file

Copy ==
    /\ l <= Len(Evs) /\ bad = {} /\ E.e = "Copy"
    /\ UNCHANGED file /\ mrate' = IF E.child # 0 THEN [mrate EXCEPT ![E.child] = E.child_rate] ELSE mrate
    /\ LET r == [cont_estimate |-> Cont(E.parent, E.before),
                 C12_data_changed_only_by_own_calls |-> ContD(E.parent, E.dig0),
                 C12_copy_leaves_original  |-> E.parent_same,
                 C12_copy_equals_original  |-> E.st # "ok" \/ (E.eq.data /\ E.eq.axes /\ E.eq.est /\ E.eq.meta),
                 C12_copy_is_independent   |-> E.own_data]
       IN IF Failing(r) # {} THEN /\ bad' = Failing(r) /\ UNCHANGED <<tid, l, known, est, dig>>
          ELSE /\ bad' = {} /\ l' = l + 1 /\ UNCHANGED tid
               /\ IF E.child = 0 THEN UNCHANGED <<known, est, dig>>
                  ELSE /\ known' = known \cup {E.child} /\ est' = [est EXCEPT ![E.child] = E.child_est]
                       /\ dig' = [dig EXCEPT ![E.child] = E.child_dig]

Noise ==
    /\ l <= Len(Evs) /\ bad = {} /\ E.e = "Noise"
    /\ UNCHANGED <<file, mrate>>
    /\ Step([cont_estimate                   |-> Cont(E.fid, E.before),
             C12_data_changed_only_by_own_calls |-> ContD(E.fid, E.dig0),
             C11_returned_is_delta           |-> E.st # "ok" \/ E.delta_ok,
             C11_first_noise_sets_params     |-> (E.st = "ok" /\ E.before.zero) => E.is_param,
             C11_later_noise_reestimates     |-> (E.st = "ok" /\ ~E.before.zero) => E.is_reest,
             C11_failed_call_leaves_frame    |-> E.st = "ok" \/ (E.data_same /\ E.after = E.before),
             C06_earlier_results_untouched   |-> E.held_ok,
             C06_axes_untouched              |-> E.axes_same], E.fid, E.after)

ZeroData ==
    /\ l <= Len(Evs) /\ bad = {} /\ E.e = "ZeroData"
    /\ UNCHANGED <<file, mrate>>
    /\ Step([C11_zero_data_resets |-> E.st # "ok" \/ (E.after.zero /\ E.data_zero /\ E.shape_ok)], E.fid, E.after)

Signal ==
    /\ l <= Len(Evs) /\ bad = {} /\ E.e = "Signal"
    /\ UNCHANGED <<file, mrate>>
    /\ Step([cont_estimate                     |-> Cont(E.fid, E.before),
             C12_data_changed_only_by_own_calls |-> ContD(E.fid, E.dig0),
             C11_signal_leaves_estimate        |-> E.after = E.before,
             C06_returned_is_delta             |-> E.st # "ok" \/ E.delta_ok,
             C06_axes_untouched                |-> E.axes_same,
             C06_metadata_untouched            |-> E.meta_same,
             C06_earlier_results_untouched     |-> E.held_ok,
             C06_failed_injection_adds_nothing |-> E.st = "ok" \/ E.data_same], E.fid, E.after)

Snr ==
    /\ l <= Len(Evs) /\ bad = {} /\ E.e = "Snr"
    /\ UNCHANGED <<file, mrate>>
    /\ Step([cont_estimate                |-> Cont(E.fid, E.before),
             C12_data_changed_only_by_own_calls |-> ContD(E.fid, E.dig0),
             C11_query_leaves_estimate    |-> E.after = E.before,
             C11_no_noise_no_snr          |-> E.std_zero <=> (E.st = "ValueError"),
             C11_intensity_snr_relation   |-> E.st # "ok" \/ E.value_ok], E.fid, E.after)

Derive ==
    /\ l <= Len(Evs) /\ bad = {} /\ E.e = "Derive"
    /\ UNCHANGED file /\ mrate' = IF E.child # 0 THEN [mrate EXCEPT ![E.child] = E.child_rate] ELSE mrate
    /\ LET r == [C17_parent_untouched |-> E.parent_same,
                 \* de-drifting "from metadata" uses the rate the frame's OWN dictionary holds: the one its own last
                 \* add_metadata / construction left, not one written through another (derived or parent) frame
                 C17_rate_from_own_metadata |-> (Traces[tid].h.strict /\ E.from_meta /\ E.parent \in known /\ mrate[E.parent] # "?")
                                                    => E.rate_seen = mrate[E.parent],
                 C12_data_changed_only_by_own_calls |-> ContD(E.parent, E.dig0),
                 C17_keeps_orientation |-> E.keeps.asc, C17_keeps_resolution |-> E.keeps.df /\ E.keeps.dt,
                 C17_keeps_start_time |-> E.keeps.t_start, C17_keeps_source_name |-> E.keeps.source,
                 C17_keeps_rows |-> E.keeps.rows, C17_holds_a_copy |-> E.own_data]
       IN IF Failing(r) # {} THEN /\ bad' = Failing(r) /\ UNCHANGED <<tid, l, known, est, dig>>
          ELSE /\ bad' = {} /\ l' = l + 1 /\ UNCHANGED tid
               /\ IF E.child = 0 THEN UNCHANGED <<known, est, dig>>
                  ELSE /\ known' = known \cup {E.child} /\ est' = [est EXCEPT ![E.child] = E.child_est]
                       /\ dig' = [dig EXCEPT ![E.child] = E.child_dig]

Next == Create \/ Noise \/ ZeroData \/ Signal \/ Snr \/ Derive \/ Save \/ Copy \/ Meta \/ Info
Spec == Init /\ [][Next]_vars

Progress == TLCSet(tid, IF bad # {} THEN <<l, bad>> ELSE IF TLCGet(tid)[1] < l THEN <<l, {}>> ELSE TLCGet(tid))
Post == \A t \in 1..Len(Traces) :
            \/ (TLCGet(t)[1] = Len(Traces[t].ev) + 1 /\ TLCGet(t)[2] = {})
            \/ PrintT(ToJson([reject |-> t, at |-> TLCGet(t)[1],
                              why |-> IF TLCGet(t)[2] # {} THEN TLCGet(t)[2]
                                      ELSE {"no-action-for-" \o Traces[t].ev[TLCGet(t)[1]].e}]))
=============================================================================
