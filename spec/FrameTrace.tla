----------------------------- MODULE FrameTrace ------------------------------
(***************************************************************************)
(* Trace validation of real setigen.Frame executions (recorded by          *)
(* harness/record_frame.py at the return of every outermost public call,    *)
(* also under the repository's own tests) against the noise-estimate state  *)
(* machine of Noise.tla (C11), the "injection only adds, and only to the    *)
(* data" clauses of C06 and the "derived frames keep the parent's           *)
(* registration and hold a copy" clauses of C17.                            *)
(*                                                                         *)
(* TLC evaluates no floats.  The recorder projects every numeric clause     *)
(* onto a boolean (delta_ok, is_param, is_reest, value_ok, keeps); what         *)
(* this module decides is WHICH of them a call owed, from the tracked state *)
(* of the frame it was made on: the estimate a frame holds ("none yet" or    *)
(* the exact pair of floats, carried as their repr strings) must be the one  *)
(* the previous event on that frame left behind, the first noise on a frame  *)
(* without estimate owes the requested parameters, any later one the         *)
(* re-estimate, signal injection and queries owe an unchanged estimate.      *)
(***************************************************************************)
EXTENDS Integers, Sequences, FiniteSets, TLC, Json, IOUtils

Traces == JsonDeserialize(IOEnv.TRACE_FILE)

VARIABLES tid, l, bad,
          known,    \* frame ids seen so far
          est       \* frame id -> [zero, m, s]: the estimate the last event on that frame left
vars == <<tid, l, bad, known, est>>

Evs == Traces[tid].ev
E   == Evs[l]
Unknown == [zero |-> FALSE, m |-> "?", s |-> "?"]
Failing(r) == {k \in DOMAIN r : ~r[k]}

Init == /\ tid \in 1..Len(Traces) /\ l = 1 /\ bad = {} /\ known = {}
        /\ est = [f \in 1..Traces[tid].h.nf |-> Unknown]
        /\ TLCSet(tid, <<1, {}>>)

Cont(f, before) == f \notin known \/ est[f] = before      \* a frame first seen mid-life (copy, unpickled, loaded) is adopted

Step(checks, f, after) ==
    IF Failing(checks) # {} THEN /\ bad' = Failing(checks) /\ UNCHANGED <<tid, l, known, est>>
    ELSE /\ bad' = {} /\ l' = l + 1 /\ known' = known \cup {f} /\ est' = [est EXCEPT ![f] = after] /\ UNCHANGED tid

Create ==
    /\ l <= Len(Evs) /\ bad = {} /\ E.e = "Create"
    /\ Step([C11_fresh_frame_has_no_estimate |-> (E.how = "sizes") => (E.after.zero /\ E.data_zero),
             C11_degrees_of_freedom          |-> E.k_ok,
             C05_axes_match_shape            |-> E.axes_ok], E.fid, E.after)

Noise ==
    /\ l <= Len(Evs) /\ bad = {} /\ E.e = "Noise"
    /\ Step([cont_estimate                   |-> Cont(E.fid, E.before),
             C11_returned_is_delta           |-> E.st # "ok" \/ E.delta_ok,
             C11_first_noise_sets_params     |-> (E.st = "ok" /\ E.before.zero) => E.is_param,
             C11_later_noise_reestimates     |-> (E.st = "ok" /\ ~E.before.zero) => E.is_reest,
             C11_failed_call_leaves_frame    |-> E.st = "ok" \/ (E.data_same /\ E.after = E.before),
             C06_earlier_results_untouched   |-> E.held_ok,
             C06_axes_untouched              |-> E.axes_same], E.fid, E.after)

ZeroData ==
    /\ l <= Len(Evs) /\ bad = {} /\ E.e = "ZeroData"
    /\ Step([C11_zero_data_resets |-> E.st # "ok" \/ (E.after.zero /\ E.data_zero /\ E.shape_ok)], E.fid, E.after)

Signal ==
    /\ l <= Len(Evs) /\ bad = {} /\ E.e = "Signal"
    /\ Step([cont_estimate                     |-> Cont(E.fid, E.before),
             C11_signal_leaves_estimate        |-> E.after = E.before,
             C06_returned_is_delta             |-> E.st # "ok" \/ E.delta_ok,
             C06_axes_untouched                |-> E.axes_same,
             C06_metadata_untouched            |-> E.meta_same,
             C06_earlier_results_untouched     |-> E.held_ok,
             C06_failed_injection_adds_nothing |-> E.st = "ok" \/ E.data_same], E.fid, E.after)

Snr ==
    /\ l <= Len(Evs) /\ bad = {} /\ E.e = "Snr"
    /\ Step([cont_estimate                |-> Cont(E.fid, E.before),
             C11_query_leaves_estimate    |-> E.after = E.before,
             C11_no_noise_no_snr          |-> E.std_zero <=> (E.st = "ValueError"),
             C11_intensity_snr_relation   |-> E.st # "ok" \/ E.value_ok], E.fid, E.after)

Derive ==
    /\ l <= Len(Evs) /\ bad = {} /\ E.e = "Derive"
    /\ LET r == [C17_parent_untouched |-> E.parent_same,
                 C17_keeps_orientation |-> E.keeps.asc, C17_keeps_resolution |-> E.keeps.df /\ E.keeps.dt,
                 C17_keeps_start_time |-> E.keeps.t_start, C17_keeps_source_name |-> E.keeps.source,
                 C17_keeps_rows |-> E.keeps.rows, C17_holds_a_copy |-> E.own_data]
       IN IF Failing(r) # {} THEN /\ bad' = Failing(r) /\ UNCHANGED <<tid, l, known, est>>
          ELSE /\ bad' = {} /\ l' = l + 1 /\ UNCHANGED tid
               /\ IF E.child = 0 THEN UNCHANGED <<known, est>>
                  ELSE known' = known \cup {E.child} /\ est' = [est EXCEPT ![E.child] = E.child_est]

Next == Create \/ Noise \/ ZeroData \/ Signal \/ Snr \/ Derive
Spec == Init /\ [][Next]_vars

Progress == TLCSet(tid, IF bad # {} THEN <<l, bad>> ELSE IF TLCGet(tid)[1] < l THEN <<l, {}>> ELSE TLCGet(tid))
Post == \A t \in 1..Len(Traces) :
            \/ (TLCGet(t)[1] = Len(Traces[t].ev) + 1 /\ TLCGet(t)[2] = {})
            \/ PrintT(ToJson([reject |-> t, at |-> TLCGet(t)[1],
                              why |-> IF TLCGet(t)[2] # {} THEN TLCGet(t)[2]
                                      ELSE {"no-action-for-" \o Traces[t].ev[TLCGet(t)[1]].e}]))
=============================================================================
