\* behaviour generator: same model, hist visible, every finished behaviour printed as JSON
SPECIFICATION Spec
CONSTANTS
  MaxLen = 4
  MaxOps = 2
  IdxSlack = 1
  EmitOn = TRUE
  Sample = 0
CHECK_DEADLOCK FALSE
