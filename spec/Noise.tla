-------------------------------- MODULE Noise -------------------------------
(***************************************************************************)
(* Noise bookkeeping (C11).  Frame side: which noise estimate the frame     *)
(* holds after any sequence of add_noise / add_noise_from_obs / zero_data / *)
(* add_signal ("zero", the requested parameters, or a re-estimate from the  *)
(* data), the chi-squared degrees of freedom k = 4 round(df dt), and the    *)
(* intensity <-> SNR relation.  Voltage side: noise deviations of streams   *)
(* add in quadrature, including the shared array background (variances are  *)
(* integers here).  Distribution moments are outside TLC: the adapter turns *)
(* sample moments into z-scores against the mean / variance this module     *)
(* names (k and the parameters in force).                                   *)
(***************************************************************************)
EXTENDS Integers, Sequences, FiniteSets, TLC, Json

CONSTANTS MaxOps, EmitOn,
          Focus      \* "all", or "streams": only the voltage-side alphabet on one stream and one background (every sequence
                     \* of add_noise / user source / update_noise is enumerated on every quick run)

VARIABLES geo,      \* [dfdt10 : ten times df*dt (so tenths are representable), T, dt2 : twice the time resolution]
          est,      \* <<"zero">> | <<"param", kind, mean, std>> | <<"estimated">>
          content,  \* "empty" | "noise" | "mixed"
          own, bg,  \* voltage side: own[a][p], bg[p] = variance (integer) of the stream's noise bookkeeping
          xown, xbg, \* variance of user-defined sources the bookkeeping does not know about until update_noise()
          hist

vars == <<geo, est, content, own, bg, xown, xbg, hist>>
View == <<geo, est, content, own, bg, xown, xbg>>

(* k = 4 * round(df * dt); both neighbours at an exact half *)
KSet(g) == LET f == g.dfdt10 \div 10  r == g.dfdt10 % 10 IN
           IF r < 5 THEN {4 * f} ELSE IF r > 5 THEN {4 * (f + 1)} ELSE {4 * f, 4 * (f + 1)}

Kinds == {"chi2", "gaussian", "truncated"}
Means == {10, 25}
Stds == {2, 5}

Init == /\ geo \in (IF Focus = "streams" THEN [dfdt10 : {10}, T : {4}, dt2 : {2}]
                      ELSE [dfdt10 : {10, 14, 15, 16, 20, 25, 27, 510}, T : {4, 16}, dt2 : {2, 3, 4}])
        /\ est = <<"zero">> /\ content = "empty"
        /\ own = [a \in 1..2 |-> [p \in 1..2 |-> 0]] /\ bg = [p \in 1..2 |-> 0]
        /\ xown = [a \in 1..2 |-> [p \in 1..2 |-> 0]] /\ xbg = [p \in 1..2 |-> 0]
        /\ hist = <<>>

Active == Len(hist) < MaxOps
All == Focus = "all"
(* the small alphabet of Focus = "streams": one own stream (antenna 1, pol 1) and one background (pol 1), one value each *)
InFocus(a, p, s, s0) == All \/ (a = 1 /\ p = 1 /\ s = s0)
Log(a) == hist' = Append(hist, [act |-> a, est |-> est', content |-> content', own |-> own', bg |-> bg',
                                xown |-> xown', xbg |-> xbg',
                                total |-> [x \in 1..2 |-> [p \in 1..2 |-> own'[x][p] + bg'[p]]]])

(* the first noise on an empty (zero-estimate) frame sets the estimates to the requested parameters, otherwise re-estimate *)
NoiseStep(kind, m, s, src) ==
    /\ All /\ Active
    /\ est' = IF est = <<"zero">> THEN <<"param", kind, m, s>> ELSE <<"estimated">>
    /\ content' = IF content = "empty" THEN "noise" ELSE content
    /\ UNCHANGED <<geo, own, bg, xown, xbg>>
    /\ Log([name |-> src, kind |-> kind, mean |-> m, std |-> s])

AddNoise(kind, m, s) == NoiseStep(kind, m, s, "AddNoise")
(* from tables: the parameters are a row of the tables (shared index) or entries of them; identity tables in the adapter *)
AddNoiseFromObs(kind, share, tables) ==
    /\ All /\ Active
    /\ est' = IF est = <<"zero">> THEN <<"param", kind, -1, -1>> ELSE <<"estimated">>      \* -1: whatever the tables gave
    /\ content' = IF content = "empty" THEN "noise" ELSE content
    /\ UNCHANGED <<geo, own, bg, xown, xbg>>
    /\ Log([name |-> "AddNoiseFromObs", kind |-> kind, share |-> share, tables |-> tables])

(* tables of different lengths with a shared index: refused (IndexError), nothing changes -- data, estimates, generator *)
AddNoiseFromObsRefused(which) ==
    /\ All /\ Active /\ UNCHANGED <<geo, est, content, own, bg, xown, xbg>>
    /\ Log([name |-> "AddNoiseFromObsRefused", which |-> which])

ZeroData == /\ All /\ Active /\ est' = <<"zero">> /\ content' = "empty" /\ UNCHANGED <<geo, own, bg, xown, xbg>> /\ Log([name |-> "ZeroData"])
AddSignal == /\ All /\ Active /\ est' = est /\ content' = (IF content = "empty" THEN "mixed" ELSE content)
             /\ UNCHANGED <<geo, own, bg, xown, xbg>> /\ Log([name |-> "AddSignal"])
(* intensity(snr) = snr * noise_std / sqrt(T) and its inverse: queries *)
QuerySnr == /\ All /\ Active /\ UNCHANGED <<geo, est, content, own, bg, xown, xbg>> /\ Log([name |-> "QuerySnr", snr |-> 30])

(* voltage side *)
StreamAddNoise(a, p, s) == /\ InFocus(a, p, s, 3) /\ Active /\ own' = [own EXCEPT ![a][p] = @ + s * s] /\ UNCHANGED <<geo, est, content, bg, xown, xbg>>
                           /\ Log([name |-> "StreamAddNoise", a |-> a, p |-> p, std |-> s])
BgAddNoise(p, s) == /\ InFocus(1, p, s, 4) /\ Active /\ bg' = [bg EXCEPT ![p] = @ + s * s] /\ UNCHANGED <<geo, est, content, own, xown, xbg>>
                    /\ Log([name |-> "BgAddNoise", p |-> p, std |-> s])

(* a user-defined source (std s) is not book-kept; update_noise() re-estimates the deviation from samples, after which
   further add_noise calls add in quadrature to the refreshed value *)
StreamAddSource(a, p, s) == /\ InFocus(a, p, s, 6) /\ Active /\ xown' = [xown EXCEPT ![a][p] = @ + s * s] /\ UNCHANGED <<geo, est, content, own, bg, xbg>>
                            /\ Log([name |-> "StreamAddSource", a |-> a, p |-> p, std |-> s])
StreamUpdateNoise(a, p) == /\ InFocus(a, p, 0, 0) /\ Active /\ own[a][p] + xown[a][p] > 0
                           /\ own' = [own EXCEPT ![a][p] = @ + xown[a][p]] /\ xown' = [xown EXCEPT ![a][p] = 0]
                           /\ UNCHANGED <<geo, est, content, bg, xbg>>
                           /\ Log([name |-> "StreamUpdateNoise", a |-> a, p |-> p])
BgAddSource(p, s) == /\ InFocus(1, p, s, 2) /\ Active /\ xbg' = [xbg EXCEPT ![p] = @ + s * s] /\ UNCHANGED <<geo, est, content, own, bg, xown>>
                     /\ Log([name |-> "BgAddSource", p |-> p, std |-> s])
BgUpdateNoise(p) == /\ InFocus(1, p, 0, 0) /\ Active /\ bg[p] + xbg[p] > 0
                    /\ bg' = [bg EXCEPT ![p] = @ + xbg[p]] /\ xbg' = [xbg EXCEPT ![p] = 0]
                    /\ UNCHANGED <<geo, est, content, own, xown>>
                    /\ Log([name |-> "BgUpdateNoise", p |-> p])

Done == /\ EmitOn /\ Len(hist) = MaxOps /\ PrintT(ToJson([geo |-> geo, k |-> KSet(geo), steps |-> hist]))
        /\ hist' = Append(hist, [act |-> [name |-> "Done"]]) /\ UNCHANGED <<geo, est, content, own, bg, xown, xbg>>

Next == \/ Done
        \/ \E kind \in Kinds, m \in Means, s \in Stds : AddNoise(kind, m, s)
        \/ \E kind \in Kinds, share \in BOOLEAN, tables \in {"user", "default"} : AddNoiseFromObs(kind, share, tables)
        \/ \E which \in {"std_longer", "min_longer", "min_shorter"} : AddNoiseFromObsRefused(which)
        \/ ZeroData \/ AddSignal \/ QuerySnr
        \/ \E a \in 1..2, p \in 1..2, s \in {3, 4, 12} : StreamAddNoise(a, p, s)
        \/ \E p \in 1..2, s \in {3, 4, 5} : BgAddNoise(p, s)
        \/ \E a \in 1..2, p \in 1..2, s \in {6} : StreamAddSource(a, p, s)
        \/ \E a \in 1..2, p \in 1..2 : StreamUpdateNoise(a, p)
        \/ \E p \in 1..2, s \in {2} : BgAddSource(p, s)
        \/ \E p \in 1..2 : BgUpdateNoise(p)
Spec == Init /\ [][Next]_vars

-----------------------------------------------------------------------------
FirstNoiseSetsParams ==
    [][(hist' # hist /\ hist'[Len(hist')].act.name \in {"AddNoise", "AddNoiseFromObs"} /\ est = <<"zero">>) => est'[1] = "param"]_vars
LaterNoiseReestimates ==
    [][(hist' # hist /\ hist'[Len(hist')].act.name \in {"AddNoise", "AddNoiseFromObs"} /\ est # <<"zero">>) => est' = <<"estimated">>]_vars
ZeroDataResets == [][(hist' # hist /\ hist'[Len(hist')].act.name = "ZeroData") => est' = <<"zero">>]_vars
SignalLeavesEstimate == [][(hist' # hist /\ hist'[Len(hist')].act.name \in {"AddSignal", "QuerySnr", "AddNoiseFromObsRefused"}) => est' = est]_vars
(* variances add: the total of a stream is its own plus the shared background of its polarisation, for every antenna alike *)
QuadratureSum == \A p \in 1..2 : \A a, b \in 1..2 : (own[a][p] + bg[p]) - (own[b][p] + bg[p]) = own[a][p] - own[b][p]
(* the realised variance of a stream (booked + not yet booked) only ever grows by the variance of what was added;
   update_noise() moves variance from "unknown" to "booked" without changing the sum *)
Realised(a, p) == own[a][p] + xown[a][p] + bg[p] + xbg[p]
UpdateKeepsRealised ==
    [][(hist' # hist /\ hist'[Len(hist')].act.name \in {"StreamUpdateNoise", "BgUpdateNoise"}) =>
         \A a \in 1..2, p \in 1..2 : own'[a][p] + xown'[a][p] + bg'[p] + xbg'[p] = Realised(a, p)]_vars
AddNoiseAddsInQuadrature ==
    [][(hist' # hist /\ hist'[Len(hist')].act.name = "StreamAddNoise") =>
         LET x == hist'[Len(hist')].act IN own'[x.a][x.p] = own[x.a][x.p] + x.std * x.std]_vars
KIsMultipleOfFour == \A k \in KSet(geo) : k % 4 = 0 /\ k >= 4
=============================================================================
