---------------------------- MODULE CadenceTrace ----------------------------
(***************************************************************************)
(* Trace validation of real setigen.Cadence / OrderedCadence executions     *)
(* (recorded by harness/record_cadence.py at the return of every outermost  *)
(* public call, also under the repository's own tests) against the list /   *)
(* label / time semantics of Cadence.tla and the Shift / Inject / Unshift   *)
(* protocol of CadenceInject.tla.  The same Python list operators           *)
(* (PyList.tla) as the model-checked specification are used.                *)
(*                                                                         *)
(* A trace is [h |-> header, ev |-> events].  The header gives, per object  *)
(* id 1..nf, the compatibility key (0: not a frame; equal keys = equal df,  *)
(* dt, fchans, fmin), the number of time samples, the duration in ticks and *)
(* the label at first sight.  Every event carries the cadence id, the       *)
(* arguments, the outcome, the cadence before (b) and after, the label and  *)
(* start-time vectors of all objects before and after, and the aggregates.  *)
(* Several cadences (slices share frame objects with their parents) live in *)
(* one trace; a cadence first seen (deepcopy, unpickling) is adopted from   *)
(* the logged before-state and must satisfy the invariants there.           *)
(*                                                                         *)
(* Every clause is named (prefix = property it bears on) and a rejection    *)
(* reports the failing clauses of the first rejected event.                 *)
(***************************************************************************)
EXTENDS Integers, Sequences, FiniteSets, TLC, Json, IOUtils, PyList

Traces == JsonDeserialize(IOEnv.TRACE_FILE)

VARIABLES tid,      \* which trace
          l,        \* next event
          bad,      \* failing clauses of the rejected event ({}: none so far)
          known,    \* cadence ids whose state is tracked
          fr,       \* cadence id -> sequence of object ids
          isOrd,    \* cadence id -> OrderedCadence?
          order,    \* cadence id -> order string as a sequence of letters (<<>> for plain cadences)
          label,    \* object id -> order label or "-"
          inj       \* cadence-wide injection in progress
vars == <<tid, l, bad, known, fr, isOrd, order, label, inj>>

H   == Traces[tid].h
Evs == Traces[tid].ev
E   == Evs[l]
NF  == H.nf
Order0 == <<"A", "B", "A", "C", "A", "D">>

Tol == 2                     \* ticks: start times are floats rounded to ticks by the recorder
Abs(x) == IF x < 0 THEN 0 - x ELSE x
Near(x, y, k) == Abs(x - y) <= Tol * k
NearSeq(a, b, k) == Len(a) = Len(b) /\ \A j \in 1..Len(a) : Near(a[j], b[j], k)

Key(v) == H.key[v]
Chk(v, f) == IF Key(v) = 0 THEN "TypeError"
             ELSE IF Len(f) > 0 /\ Key(v) # Key(f[1]) THEN "AttributeError"
             ELSE "ok"

Homog(f) == \A i \in 1..Len(f) : Key(f[i]) # 0 /\ Key(f[i]) = Key(f[1])
Labelled(o, f, lb) == o => \A i \in 1..Len(f) : lb[f[i]] # "-"

NoSel == [kind |-> "none"]
Res(f, lb, st, o, sel) == [f |-> f, lab |-> lb, st |-> st, o |-> o, sel |-> sel]

(* insertion of one object at 0-based position p, with the label rule of ordered cadences;   *)
(* an order string too short for the position raises IndexError before anything is changed   *)
InsertOne(f, lb, p, v, ord, o) ==
    LET e == Chk(v, f) IN
    IF e # "ok" THEN [f |-> f, lab |-> lb, st |-> e]
    ELSE IF ord /\ lb[v] = "-" /\ p + 1 > Len(o) THEN [f |-> f, lab |-> lb, st |-> "IndexError"]
    ELSE [f |-> InsertAt(f, p, v),
          lab |-> IF ord /\ lb[v] = "-" THEN [lb EXCEPT ![v] = o[p + 1]] ELSE lb,
          st |-> "ok"]

RECURSIVE ExtendFrom(_, _, _, _, _)
ExtendFrom(f, lb, lst, ord, o) ==
    IF lst = <<>> THEN [f |-> f, lab |-> lb, st |-> "ok"]
    ELSE LET x == InsertOne(f, lb, Len(f), Head(lst), ord, o) IN
         IF x.st # "ok" THEN x ELSE ExtendFrom(x.f, x.lab, Tail(lst), ord, o)

RECURSIVE SumTch(_)
SumTch(f) == IF f = <<>> THEN 0 ELSE H.tch[Head(f)] + SumTch(Tail(f))

RECURSIVE Overwrite(_, _, _, _)
Overwrite(t, f, k, s) == IF k > Len(f) THEN t
                         ELSE Overwrite([t EXCEPT ![f[k]] = t[f[k - 1]] + H.dur[f[k - 1]] + s], f, k + 1, s)

LastPos(f, v, m) == CHOOSE k \in 1..m : f[k] = v /\ \A j \in k + 1..m : f[j] # v

(* the meaning of every recorded operation: cadence f, order o, class ord, labels lb *)
Sem(e, a, f, o, ord, lb) ==
    LET n == Len(f)
        same(st) == Res(f, lb, st, o, NoSel)
        from(x) == Res(x.f, x.lab, x.st, o, NoSel)
    IN
    CASE e = "New"      -> from(ExtendFrom(<<>>, lb, a.list, ord, o))
      [] e = "Insert"   -> from(InsertOne(f, lb, Clamp(a.i, n), a.v, ord, o))
      [] e = "Append"   -> from(InsertOne(f, lb, n, a.v, ord, o))
      [] e \in {"Extend", "IAdd"} -> from(ExtendFrom(f, lb, a.list, ord, o))
      [] e = "SetItem"  ->
            LET err == Chk(a.v, f)  p == Norm(a.i, n) IN
            IF err # "ok" THEN same(err)
            ELSE IF ~InRange(a.i, n) THEN same("IndexError")
            ELSE IF ord /\ lb[a.v] = "-" /\ p + 1 > Len(o) THEN same("IndexError")
            ELSE Res(ReplaceAt(f, p, a.v), IF ord /\ lb[a.v] = "-" THEN [lb EXCEPT ![a.v] = o[p + 1]] ELSE lb, "ok", o, NoSel)
      [] e = "SetSlice" -> same("TypeError")
      [] e = "DelItem"  -> IF ~InRange(a.i, n) THEN same("IndexError") ELSE Res(RemoveAt(f, Norm(a.i, n)), lb, "ok", o, NoSel)
      [] e = "DelSlice" -> Res(DeletePos(f, SlicePos(a.lo, a.hi, a.step, n)), lb, "ok", o, NoSel)
      [] e = "Pop"      -> LET i == IF a.i = NoneV THEN -1 ELSE a.i IN
                           IF ~InRange(i, n) THEN same("IndexError")
                           ELSE Res(RemoveAt(f, Norm(i, n)), lb, "ok", o, [kind |-> "val", val |-> f[Norm(i, n) + 1]])
      [] e = "Remove"   -> LET k == IndexOf(f, a.v, 1) IN
                           IF k < 0 THEN same("ValueError") ELSE Res(RemoveAt(f, k), lb, "ok", o, NoSel)
      [] e = "Reverse"  -> Res([j \in 1..n |-> f[n + 1 - j]], lb, "ok", o, NoSel)
      [] e = "Clear"    -> Res(<<>>, lb, "ok", o, NoSel)
      [] e = "GetItem"  -> IF ~InRange(a.i, n) THEN same("IndexError")
                           ELSE Res(f, lb, "ok", o, [kind |-> "val", val |-> f[Norm(a.i, n) + 1]])
      [] e = "GetSlice" -> Res(f, lb, "ok", o, [kind |-> "ids", ids |-> SelectPos(f, SlicePos(a.lo, a.hi, a.step, n)), rord |-> ord])
      [] e = "GetIdx"   -> IF \E j \in 1..Len(a.list) : ~InRange(a.list[j], n) THEN same("IndexError")
                           ELSE Res(f, lb, "ok", o, [kind |-> "ids", ids |-> [j \in 1..Len(a.list) |-> f[Norm(a.list[j], n) + 1]], rord |-> ord])
      [] e = "GetMask"  -> IF Len(a.mask) # n THEN same("IndexError")
                           ELSE Res(f, lb, "ok", o, [kind |-> "ids",
                                    ids |-> SelectPos(f, SelectSeq([j \in 1..n |-> j - 1], LAMBDA p : a.mask[p + 1])), rord |-> ord])
      [] e = "ByLabel"  -> Res(f, lb, "ok", o, [kind |-> "ids", ids |-> SelectSeq(f, LAMBDA v : lb[v] = a.label), rord |-> FALSE])
      [] e = "SetOrder" -> LET m == Min2(n, Len(a.order)) IN
                           Res(f, [v \in 1..NF |-> IF \E k \in 1..m : f[k] = v THEN a.order[LastPos(f, v, m)] ELSE lb[v]],
                               IF Len(a.order) < n THEN "IndexError" ELSE "ok", a.order, NoSel)
      [] e \in {"OverwriteTimes", "Consolidate"} -> same("ok")

OpNames == {"New", "Insert", "Append", "Extend", "IAdd", "SetItem", "SetSlice", "DelItem", "DelSlice", "Pop", "Remove",
            "Reverse", "Clear", "GetItem", "GetSlice", "GetIdx", "GetMask", "ByLabel", "SetOrder", "OverwriteTimes", "Consolidate"}

AggChecks(a, f, t) ==
    LET n == Len(f) IN
    [C18_agg_empty  |-> a.empty = (n = 0),
     C18_agg_tchans |-> n = 0 \/ a.tchans = SumTch(f),
     C18_agg_range  |-> n = 0 \/ Near(a.obs, t[f[n]] + H.dur[f[n]] - t[f[1]], 1),
     C18_agg_slews  |-> n = 0 \/ (Len(a.slews) = n - 1 /\ \A i \in 1..n - 1 : Near(a.slews[i], t[f[i + 1]] - (t[f[i]] + H.dur[f[i]]), 1))]

SelChecks(sel, ev) ==
    IF sel.kind = "val" THEN [C18_returned_item |-> ev.r.kind = "val" /\ ev.r.val = sel.val]
    ELSE IF sel.kind = "ids" THEN [C18_selection |-> ev.r.kind = "ids" /\ ev.r.ids = sel.ids /\ ev.r.rord = sel.rord]
    ELSE [C18_no_result |-> TRUE]

TimeChecks(ev, f, st) ==
    IF ev.e = "OverwriteTimes" \/ (ev.e = "New" /\ ev.a.overwrite /\ st = "ok")
    THEN [C16_slew_exact |-> NearSeq(ev.t_a, Overwrite(ev.t_b, f, 2, ev.a.slew), Len(f) + 1)]
    ELSE [C18_times_untouched |-> ev.t_a = ev.t_b]

OpChecks(ev, isNew, F, O, Ord, X) ==
    [cont_members       |-> isNew \/ ev.b.ids = F,
     cont_class         |-> isNew \/ (ev.b.ordered = Ord /\ ev.b.order = O),
     cont_labels        |-> ev.lab_b = label,
     adopt_homogeneous  |-> Homog(F),
     adopt_labelled     |-> Labelled(Ord, F, ev.lab_b),
     C18_status         |-> ev.st = X.st,
     C18_members        |-> ev.after.ids = X.f,
     C18_labels         |-> ev.lab_a = X.lab,
     C18_order          |-> ev.after.order = X.o /\ ev.after.ordered = Ord,
     C18_homogeneous    |-> Homog(ev.after.ids),
     C18_all_labelled   |-> ev.st # "ok" \/ Labelled(Ord, ev.after.ids, ev.lab_a),
     C18_consolidated   |-> ev.e # "Consolidate" \/ ev.r.tch = SumTch(F)]

Failing(r) == {k \in DOMAIN r : ~r[k]}

Init == /\ tid \in 1..Len(Traces) /\ l = 1 /\ bad = {}
        /\ known = {}
        /\ fr = [c \in 1..Traces[tid].h.nc |-> <<>>]
        /\ isOrd = [c \in 1..Traces[tid].h.nc |-> FALSE]
        /\ order = [c \in 1..Traces[tid].h.nc |-> <<>>]
        /\ label = Traces[tid].h.label0
        /\ inj = [on |-> FALSE]
        /\ TLCSet(tid, <<1, {}>>)

Reject(s) == /\ bad' = s /\ UNCHANGED <<tid, l, known, fr, isOrd, order, label, inj>>

Op ==
    /\ l <= Len(Evs) /\ bad = {} /\ E.e \in OpNames /\ ~inj.on
    /\ LET c == E.cad
           isNew == c \notin known
           F   == IF isNew THEN E.b.ids ELSE fr[c]
           Ord == IF isNew THEN E.b.ordered ELSE isOrd[c]
           O   == IF isNew THEN E.b.order ELSE order[c]
           X   == Sem(E.e, E.a, F, O, Ord, E.lab_b)
           fails == Failing(OpChecks(E, isNew, F, O, Ord, X)) \cup Failing(SelChecks(X.sel, E))
                    \cup Failing(TimeChecks(E, X.f, X.st)) \cup Failing(AggChecks(E.agg, E.after.ids, E.t_a))
       IN IF fails # {} THEN Reject(fails)
          ELSE /\ bad' = {} /\ l' = l + 1 /\ label' = X.lab
               /\ IF X.sel.kind = "ids" /\ E.st = "ok"
                  THEN /\ known' = known \cup {c, E.r.rcad}
                       /\ fr' = [fr EXCEPT ![c] = X.f, ![E.r.rcad] = X.sel.ids]
                       /\ isOrd' = [isOrd EXCEPT ![c] = Ord, ![E.r.rcad] = X.sel.rord]
                       /\ order' = [order EXCEPT ![c] = X.o, ![E.r.rcad] = IF X.sel.rord THEN Order0 ELSE <<>>]
                  ELSE /\ known' = known \cup {c}
                       /\ fr' = [fr EXCEPT ![c] = X.f]
                       /\ isOrd' = [isOrd EXCEPT ![c] = Ord]
                       /\ order' = [order EXCEPT ![c] = X.o]
               /\ UNCHANGED <<tid, inj>>

(* Cadence.add_signal: Shift / Inject / Unshift per member, in list order, stopping at the first raise *)
InjBegin ==
    /\ l <= Len(Evs) /\ bad = {} /\ E.e = "InjBegin" /\ ~inj.on
    /\ LET c == E.cad
           isNew == c \notin known
           F == IF isNew THEN E.b.ids ELSE fr[c]
           r == [cont_members |-> isNew \/ E.b.ids = F, adopt_homogeneous |-> Homog(F)]
       IN IF Failing(r) # {} THEN Reject(Failing(r))
          ELSE /\ inj' = [on |-> TRUE, cad |-> c, k |-> 1, dead |-> FALSE, f |-> F, t |-> E.t_b]
               /\ known' = known \cup {c} /\ fr' = [fr EXCEPT ![c] = F]
               /\ isOrd' = [isOrd EXCEPT ![c] = E.b.ordered] /\ order' = [order EXCEPT ![c] = E.b.order]
               /\ bad' = {} /\ l' = l + 1 /\ UNCHANGED <<tid, label>>

Inject ==
    /\ l <= Len(Evs) /\ bad = {} /\ E.e = "Inject" /\ inj.on
    /\ LET F == inj.f  k == inj.k
           r == [C16_in_list_order   |-> k <= Len(F) /\ E.fid = F[k],
                 C16_stops_at_raise  |-> ~inj.dead,
                 C16_offset_is_relative_start |->
                     k <= Len(F) /\ Len(E.dts) = Len(F) /\
                     \A j \in 1..Len(F) : Near(E.dts[j], IF F[j] = F[k] THEN inj.t[F[k]] - inj.t[F[1]] ELSE 0, 1)]
       IN IF Failing(r) # {} THEN Reject(Failing(r))
          ELSE /\ inj' = [inj EXCEPT !.k = k + 1, !.dead = (E.st # "ok")]
               /\ bad' = {} /\ l' = l + 1 /\ UNCHANGED <<tid, known, fr, isOrd, order, label>>

InjEnd ==
    /\ l <= Len(Evs) /\ bad = {} /\ E.e = "InjEnd" /\ inj.on
    /\ LET F == inj.f
           r == [C16_every_member      |-> E.st # "ok" \/ (inj.k = Len(F) + 1 /\ ~inj.dead),
                 C16_raise_propagates  |-> inj.dead => E.st # "ok",
                 C16_time_axes_restored |-> Len(E.dts) = Len(F) /\ \A j \in 1..Len(F) : Near(E.dts[j], 0, 1),
                 C16_start_times_untouched |-> E.t_a = inj.t,
                 C18_members           |-> E.after.ids = F]
       IN IF Failing(r) # {} THEN Reject(Failing(r))
          ELSE /\ inj' = [on |-> FALSE] /\ bad' = {} /\ l' = l + 1 /\ UNCHANGED <<tid, known, fr, isOrd, order, label>>

Next == Op \/ InjBegin \/ Inject \/ InjEnd
Spec == Init /\ [][Next]_vars

(* furthest point per trace and the failing clauses there *)
Progress == TLCSet(tid, IF bad # {} THEN <<l, bad>> ELSE IF TLCGet(tid)[1] < l THEN <<l, {}>> ELSE TLCGet(tid))
Post == \A t \in 1..Len(Traces) :
            \/ (TLCGet(t)[1] = Len(Traces[t].ev) + 1 /\ TLCGet(t)[2] = {})
            \/ PrintT(ToJson([reject |-> t, at |-> TLCGet(t)[1],
                              why |-> IF TLCGet(t)[2] # {} THEN TLCGet(t)[2]
                                      ELSE {"no-action-for-" \o Traces[t].ev[TLCGet(t)[1]].e}]))
=============================================================================
