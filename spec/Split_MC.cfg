SPECIFICATION Spec
CONSTANTS
  MaxN = 9
  MaxH = 5
  MaxW = 5
  EmitOn = FALSE
INVARIANT PieceCount
INVARIANT PieceCovers
INVARIANT Partition
INVARIANT TrimKeepsFullTiles
CHECK_DEADLOCK TRUE
