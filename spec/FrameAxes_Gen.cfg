SPECIFICATION Spec
CONSTANTS
  FSet = {1, 2, 3, 4, 5, 6, 7, 12}
  TSet = {1, 2, 3, 4, 6, 7, 9, 12}
  LoSet = {0, 3}
  EmitOn = TRUE
CHECK_DEADLOCK FALSE
