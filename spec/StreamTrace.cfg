SPECIFICATION Spec
CONSTRAINT Progress
POSTCONDITION Post
CHECK_DEADLOCK FALSE
