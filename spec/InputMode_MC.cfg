SPECIFICATION Spec
CONSTANTS
  BpfSet = {1, 2, 3}
  FilesSet = {1, 2, 3}
  ReqSet = {0, 1, 2, 4, 9, 12}
  SubSet = {1, 2, 3}
  EmitOn = FALSE
INVARIANT ReadsInOrder
INVARIANT LengthClampedToInput
INVARIANT GainStationary
INVARIANT CachedStdUntouched
CHECK_DEADLOCK TRUE
