---------------------------- MODULE ConstSignal -----------------------------
(***************************************************************************)
(* Frame.add_constant_signal versus general injection (C13).  Frequency in  *)
(* u = 1/24 channel from the centre of column 0; one time step per row.      *)
(* A configuration fixes the start position s0, the drift d (units per row), *)
(* the width w, the profile type and whether Doppler smearing is on.  The    *)
(* spec decides (i) the number of smearing sub-steps, (ii) for every pixel   *)
(* whether the helper MUST equal the general signal ("eq": everywhere for    *)
(* compact profiles; within the FWHM around the (swept) signal centre for    *)
(* tailed ones) or may also be zero ("eqOrZero"), (iii) the mirror partner.  *)
(***************************************************************************)
EXTENDS Integers, Sequences, FiniteSets, TLC, Json

CONSTANTS FSet, TSet, EmitOn,
          Focus      \* "all", or "fast": smeared drifts of several channels per step through the middle and the top of the
                     \* band, every profile type (small enough to enumerate on every quick run)
FQ == 24

VARIABLES cfg, phase, out
vars == <<cfg, phase, out>>

Abs(x) == IF x < 0 THEN -x ELSE x
Max2(a, b) == IF a > b THEN a ELSE b
Min2(a, b) == IF a < b THEN a ELSE b
CeilDiv(a, b) == (a + b - 1) \div b

Types == {"box", "sinc2", "gaussian", "lorentzian", "voigt"}
Compact(t) == t \in {"box", "sinc2"}
(* full width at half maximum times 10000, for width w (voigt: g_width = l_width = w; 0.5346 w + sqrt(0.2166 w^2 + w^2)) *)
Fwhm4(t, w) == IF t = "voigt" THEN 16375 * w ELSE 10000 * w

(* max(1, ceil(|drift| / unit drift)); the unit drift is one channel (24 u) per row *)
Substeps(c) == IF c.smear THEN Max2(1, CeilDiv(Abs(c.d), FQ)) ELSE 1

(* signal centre range at row i, times n: from n*(s0 + d i) to n*(s0 + d i) + (n-1) d when smearing *)
CLo(c, i) == LET n == Substeps(c)  a == n * (c.s0 + c.d * i)  b == a + (IF c.smear THEN (n - 1) * c.d ELSE 0) IN Min2(a, b)
CHi(c, i) == LET n == Substeps(c)  a == n * (c.s0 + c.d * i)  b == a + (IF c.smear THEN (n - 1) * c.d ELSE 0) IN Max2(a, b)

MustEqual(c, i, j) ==
    IF Compact(c.type) THEN TRUE
    ELSE LET n == Substeps(c)  f == n * FQ * j
             dist == IF f < CLo(c, i) THEN CLo(c, i) - f ELSE IF f > CHi(c, i) THEN f - CHi(c, i) ELSE 0 IN
         2 * 10000 * dist <= Fwhm4(c.type, c.w) * n

Mask(c) == [i \in 1..c.T |-> [j \in 1..c.F |-> IF MustEqual(c, i - 1, j - 1) THEN 1 ELSE 0]]

Starts(F) == {-48, -30, -12, 0, 6, 24 * (F \div 2), 24 * (F \div 2) + 9, 24 * (F - 1), 24 * (F - 1) + 12, 24 * F + 30}
Drifts == {-96, -60, -30, -24, -6, 0, 6, 18, 24, 42, 48, 96}
Widths == {1, 6, 12, 24, 36, 60, 240}

Init == /\ cfg \in (IF Focus = "fast"
                    THEN [F : {12}, T : {4}, asc : BOOLEAN, s0 : {24 * 6, 24 * 11, 24 * 2 + 9}, d : {-96, -60, 60, 96}, w : {6, 24, 60},
                          type : Types, smear : {TRUE}]
                    ELSE UNION {[F : {F}, T : TSet, asc : BOOLEAN, s0 : Starts(F), d : Drifts, w : Widths, type : Types, smear : BOOLEAN]
                                : F \in FSet})
        /\ phase = "cfg" /\ out = <<>>

Compute == /\ phase = "cfg"
           /\ out' = [cfg |-> cfg, n |-> Substeps(cfg), mask |-> Mask(cfg)]
           /\ phase' = "done" /\ UNCHANGED cfg
Emit == /\ EmitOn /\ phase = "done" /\ PrintT(ToJson(out)) /\ phase' = "emitted" /\ UNCHANGED <<cfg, out>>
Idle == phase \in {"done", "emitted"} /\ (~EmitOn \/ phase = "emitted") /\ UNCHANGED vars
Next == Compute \/ Emit \/ Idle
Spec == Init /\ [][Next]_vars

-----------------------------------------------------------------------------
SubstepsPositive == Substeps(cfg) >= 1
(* a non-drifting smeared signal is the unsmeared one *)
ZeroDriftOneStep == cfg.d = 0 => Substeps(cfg) = 1
(* drift -d is the mirror image of drift +d: same sub-step count, and the must-equal mask mirrors about the start
   position when that is a channel centre *)
Neg(c) == [c EXCEPT !.d = -c.d]
NegDriftIsMirror ==
    /\ Substeps(Neg(cfg)) = Substeps(cfg)
    /\ (cfg.s0 % FQ = 0 =>
          LET j0 == cfg.s0 \div FQ IN
          \A i \in 0..cfg.T - 1, j \in 0..cfg.F - 1 :
              (2 * j0 - j \in 0..cfg.F - 1) => (MustEqual(cfg, i, j) <=> MustEqual(Neg(cfg), i, 2 * j0 - j)))
(* the signal centre itself is always a must-equal position *)
CentreMustEqual ==
    \A i \in 0..cfg.T - 1, j \in 0..cfg.F - 1 :
        (2 * Abs(FQ * j - (cfg.s0 + cfg.d * i)) <= FQ \div 2 /\ cfg.w >= FQ) => MustEqual(cfg, i, j)
=============================================================================
