SPECIFICATION Spec
CONSTANTS
  TapsSet = {2, 3}
  USet = {1, 2, 3, 4, 5}
  SSet = {1, 2, 3, 4, 5, 7}
  BlocksSet = {1, 2, 3}
  BpfSet = {1, 2, 3}
  PolsSet = {1, 2}
  BitsSet = {4, 8}
  NRec = 2
  EmitOn = TRUE
CHECK_DEADLOCK FALSE
