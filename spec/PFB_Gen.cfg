SPECIFICATION Spec
CONSTANTS
  MaxWin = 5
  MaxOps = 3
  EmitOn = TRUE
  TapsSet = {2, 3}
  BSet = {2, 4}
CHECK_DEADLOCK FALSE
