-------------------------------- MODULE Level -------------------------------
(***************************************************************************)
(* Extension beyond the listed properties: the bin arithmetic of             *)
(* setigen.voltage.level_utils.  A tone at position g (in eighths of a fine  *)
(* bin from fch1, either side) has spectral bin fraction (g mod 8) / 8,      *)
(* folded to min(frac, 1 - frac); the leakage factor is 1 / sinc(folded)     *)
(* (numeric, in the adapter).  get_level uses tchans = floor(blocks *        *)
(* samples_per_block / fftlength) fine spectra and 2 * pols degrees of       *)
(* freedom.                                                                  *)
(***************************************************************************)
EXTENDS Integers, Sequences, FiniteSets, TLC, Json

CONSTANTS EmitOn
VARIABLES cfg, phase, out
vars == <<cfg, phase, out>>

Abs(x) == IF x < 0 THEN -x ELSE x
(* distance to the nearest fine-bin centre, in eighths of a bin (TLC's % is the mathematical modulo, so this also holds
   for positions below fch1; the implementation uses numpy.modf, whose fraction keeps the sign of g -- see AsBuilt) *)
Folded8(g) == IF g % 8 < 8 - (g % 8) THEN g % 8 ELSE 8 - (g % 8)
AsBuiltFrac8(g) == IF g >= 0 THEN g % 8 ELSE -((-g) % 8)
AsBuilt8(g) == IF AsBuiltFrac8(g) < 8 - AsBuiltFrac8(g) THEN AsBuiltFrac8(g) ELSE 8 - AsBuiltFrac8(g)

Init == /\ cfg \in [g : -20..40, asc : BOOLEAN, spb : {16, 24}, blocks : {1, 3}, L : {8, 16}, pols : {1, 2}]
        /\ phase = "cfg" /\ out = <<>>
Compute == /\ phase = "cfg"
           /\ out' = [cfg |-> cfg, folded8 |-> Folded8(cfg.g), asbuilt8 |-> AsBuilt8(cfg.g), tchans |-> (cfg.blocks * cfg.spb) \div cfg.L, chidf |-> 2 * cfg.pols]
           /\ phase' = "done" /\ UNCHANGED cfg
Emit == /\ EmitOn /\ phase = "done" /\ PrintT(ToJson(out)) /\ phase' = "emitted" /\ UNCHANGED <<cfg, out>>
Idle == phase \in {"done", "emitted"} /\ (~EmitOn \/ phase = "emitted") /\ UNCHANGED vars
Next == Compute \/ Emit \/ Idle
Spec == Init /\ [][Next]_vars

(* the leakage factor depends only on the distance to the nearest fine-bin centre: at most half a bin *)
FoldedIsDistanceToBin == Abs(Folded8(cfg.g)) <= 4 /\ \E k \in -10..10 : Abs(Folded8(cfg.g)) = Abs(cfg.g - 8 * k)
=============================================================================
