----------------------------- MODULE QuantTrace -----------------------------
(***************************************************************************)
(* Trace validation of the quantisers' refresh schedule (C09) inside real   *)
(* record() executions: every RealQuantizer.quantize call and every cache    *)
(* reset is an event; the statistics must have been refreshed exactly on     *)
(* the calls 0, p, 2p, ... after a reset (only on the first for p <= 0), and  *)
(* the counter must read (calls mod p).  Same batch idiom and trace files as *)
(* BackendTrace (the other events are skipped).                              *)
(***************************************************************************)
EXTENDS Integers, Sequences, FiniteSets, TLC, Json, IOUtils

Traces == JsonDeserialize(IOEnv.TRACE_FILE)

VARIABLES tid, l, idx
vars == <<tid, l, idx>>

NQ(t) == Traces[t][1].nq
Init == /\ tid \in 1..Len(Traces) /\ l = 2 /\ idx = [q \in 1..NQ(tid) |-> 0] /\ TLCSet(tid, 2)

Ev == Traces[tid][l]
Is(e) == l <= Len(Traces[tid]) /\ Ev.e = e

Quant == /\ Is("Quant")
         /\ Ev.refreshed = (idx[Ev.q] = 0)                                  \* refreshed exactly when the counter is 0
         /\ LET n == idx[Ev.q] + 1  m == IF n = Ev.period THEN 0 ELSE n IN
            /\ Ev.idx = m /\ idx' = [idx EXCEPT ![Ev.q] = m]
         /\ l' = l + 1 /\ UNCHANGED tid
QReset == /\ Is("QReset") /\ idx' = [idx EXCEPT ![Ev.q] = 0] /\ l' = l + 1 /\ UNCHANGED tid
Other == /\ l <= Len(Traces[tid]) /\ Ev.e \notin {"Quant", "QReset"} /\ l' = l + 1 /\ UNCHANGED <<tid, idx>>

Next == Quant \/ QReset \/ Other
Spec == Init /\ [][Next]_vars

Progress == TLCSet(tid, IF TLCGet(tid) < l THEN l ELSE TLCGet(tid))
Post == \A t \in 1..Len(Traces) :
            \/ TLCGet(t) = Len(Traces[t]) + 1
            \/ PrintT(ToJson([reject |-> t, at |-> TLCGet(t), why |-> {"refresh-schedule"}]))
=============================================================================
