---------------------------- MODULE ArithLemmas -----------------------------
(***************************************************************************)
(* Small integer facts that justify extrapolating the bounded models of      *)
(* Backend.tla, RawFiles.tla and Split.tla to all sizes; discharged by        *)
(* Apalache over unbounded integers (length 0: the invariant must hold in     *)
(* every state admitted by Init).                                            *)
(***************************************************************************)
EXTENDS Integers

VARIABLES
    \* @type: Int;
    u,
    \* @type: Int;
    s,
    \* @type: Int;
    c,
    \* @type: Int;
    n,
    \* @type: Int;
    f,
    \* @type: Int;
    sh

Ceil(a, b) == (a + b - 1) \div b

Init == /\ u \in Int /\ u >= 1 /\ s \in Int /\ s >= 1          \* windows per block, requested sub-blocks
        /\ c \in Int /\ c >= 1                                  \* header cards
        /\ n \in Int /\ f \in Int /\ sh \in Int /\ f >= 1 /\ n >= f /\ sh >= 1   \* channels, window, shift
Next == UNCHANGED <<u, s, c, n, f, sh>>

(* the sub-block plan: q windows per sub-block, s2 = updated number of sub-blocks; re-planning is a fixed point and the
   sub-blocks cover the block exactly (all but the last full, the last non-empty) *)
Q == Ceil(u, s)
S2 == Ceil(u, Q)
SubblockPlan == /\ Ceil(u, S2) = Q
                /\ (S2 - 1) * Q < u /\ u <= S2 * Q
                /\ S2 <= s

(* DIRECTIO padding brings the header to the next multiple of 512 and is shorter than 512 *)
Pad == (512 - ((80 * c) % 512)) % 512
PaddingRule == (80 * c + Pad) % 512 = 0 /\ Pad >= 0 /\ Pad < 512 /\ ((80 * c) % 512 = 0 => Pad = 0)

(* windows i*sh .. i*sh + f fit in n channels exactly for i < floor((n - f) / sh) + 1 *)
K == (n - f) \div sh + 1
PieceCount == /\ (K - 1) * sh + f <= n
              /\ K * sh + f > n

Lemmas == SubblockPlan /\ PaddingRule /\ PieceCount
=============================================================================
