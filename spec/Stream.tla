------------------------------- MODULE Stream -------------------------------
(***************************************************************************)
(* Voltage sources: DataStream clocks, Antenna (x/y streams over one       *)
(* timeline) and MultiAntennaArray (shared background stream delayed per    *)
(* antenna through a carried-over cache).  Samples are identified by their  *)
(* integer index on the sample clock ("tick") and noise by the index of the *)
(* draw in the stream's own random sequence, so that "one continuous        *)
(* timeline however requests are chunked" (C10) and "background delayed by  *)
(* the configured delay" (C15) are statements about integers.               *)
(* One action per public call; GetSamples follows the steps of the code.    *)
(***************************************************************************)
EXTENDS Integers, Sequences, FiniteSets, TLC, Json

CONSTANTS MaxReq,     \* largest request size
          MaxOps,     \* calls per behaviour
          T0Set,      \* start times given at construction (ticks)
          EmitOn

VARIABLES cfg,        \* [kind, pols, nant, delays (seq), omitted]
          own,        \* own[a][p] = [clock, start, rng]
          aclk,       \* aclk[a] = antenna's own clock and start flag (antenna kind)
          bg,         \* bg[p] = [clock, start, rng]
          arr,        \* [clock, start] of the array object
          cache,      \* cache[a][p] = [set, v] carried-over background samples
          out,        \* samples returned by the last GetSamples: out[a][p] = seq of [o, on, b, bn]
          base,       \* tick of the last SetTime (observation start)
          cnt,        \* samples delivered since then
          skew,       \* skew[a][p] = samples requested from that polarisation stream DIRECTLY since the last set_time
                      \* (the stream runs ahead of its antenna by that much until the next set_time / add_time / reset_start)
          hist

vars == <<cfg, own, aclk, bg, arr, cache, out, base, cnt, skew, hist>>
View == <<cfg, own, aclk, bg, arr, cache, out, base, cnt, skew>>

DelayVecs == {<<0>>, <<2>>, <<0, 0>>, <<0, 2>>, <<1, 0>>, <<2, 1>>, <<0, 2, 1>>, <<1, 1, 2>>}
T0s == T0Set           \* the start time given at construction (ticks): every clock of the object graph starts there
Configs == [kind : {"antenna"}, pols : {1, 2}, nant : {1}, delays : {<<0>>}, omitted : {FALSE}, t0 : T0s]
           \cup {[kind |-> "array", pols |-> p, nant |-> Len(d), delays |-> d, omitted |-> FALSE, t0 |-> t] : p \in {1, 2}, d \in DelayVecs, t \in T0s}
           \cup {[kind |-> "array", pols |-> p, nant |-> n, delays |-> [i \in 1..n |-> 0], omitted |-> TRUE, t0 |-> t] : p \in {1, 2}, n \in {1, 2}, t \in T0s}

RECURSIVE MaxSeq(_)
MaxSeq(s) == IF Len(s) = 1 THEN s[1] ELSE LET m == MaxSeq(Tail(s)) IN IF s[1] > m THEN s[1] ELSE m
D == MaxSeq(cfg.delays)
Ants == 1..cfg.nant
Pols == 1..cfg.pols

Init == /\ cfg \in Configs
        /\ own = [a \in 1..3 |-> [p \in 1..2 |-> [clock |-> cfg.t0, start |-> TRUE, rng |-> 0]]]
        /\ aclk = [a \in 1..3 |-> [clock |-> cfg.t0, start |-> TRUE]]
        /\ bg = [p \in 1..2 |-> [clock |-> cfg.t0, start |-> TRUE, rng |-> 0]]
        /\ arr = [clock |-> cfg.t0, start |-> TRUE]
        /\ cache = [a \in 1..3 |-> [p \in 1..2 |-> [set |-> FALSE, v |-> <<>>]]]
        /\ out = <<>> /\ base = cfg.t0 /\ cnt = 0 /\ hist = <<>>
        /\ skew = [a \in 1..3 |-> [p \in 1..2 |-> 0]]

Active == Len(hist) < MaxOps
Log(a, o) == Active /\ hist' = Append(hist, [act |-> a, out |-> o,
                                   st |-> [own |-> own', aclk |-> aclk', bg |-> bg', arr |-> arr',
                                           clen |-> [x \in Ants |-> [p \in Pols |-> IF cache'[x][p].set THEN Len(cache'[x][p].v) ELSE -1]]]])

(* DataStream.get_samples(n): times clock..clock+n-1, n fresh draws, clock += n, start_obs := False *)
Draw(s, n) == [j \in 1..n |-> [id |-> s.clock + j - 1, nz |-> s.rng + j - 1]]
Adv(s, n)  == [clock |-> s.clock + n, start |-> FALSE, rng |-> s.rng + n]

GetAntenna(n) ==
    /\ cfg.kind = "antenna"
    /\ LET o == [a \in Ants |-> [p \in Pols |-> [j \in 1..n |->
                   [o |-> own[a][p].clock + j - 1, on |-> own[a][p].rng + j - 1, b |-> -1, bn |-> -1]]]] IN
       /\ out' = o
       /\ own' = [a \in 1..3 |-> [p \in 1..2 |-> IF a \in Ants /\ p \in Pols THEN Adv(own[a][p], n) ELSE own[a][p]]]
       /\ aclk' = [a \in 1..3 |-> IF a \in Ants THEN [clock |-> aclk[a].clock + n, start |-> FALSE] ELSE aclk[a]]
       /\ cnt' = cnt + n
       /\ UNCHANGED <<cfg, bg, arr, cache, base, skew>>
       /\ Log([name |-> "GetSamples", n |-> n], o)

(* MultiAntennaArray.get_samples(n), n > max delay *)
GetArray(n) ==
    /\ cfg.kind = "array" /\ n > D
    /\ LET bn == IF arr.start THEN n + D ELSE n
           bgv(p) == Draw(bg[p], bn)
           d(a) == cfg.delays[a]
           sel(a, p) == IF arr.start THEN SubSeq(bgv(p), D - d(a) + 1, bn - d(a))
                        ELSE SubSeq(cache[a][p].v \o bgv(p), 1, bn)
           o == [a \in Ants |-> [p \in Pols |-> [j \in 1..n |->
                   [o |-> own[a][p].clock + j - 1, on |-> own[a][p].rng + j - 1,
                    b |-> sel(a, p)[j].id, bn |-> sel(a, p)[j].nz]]]] IN
       /\ out' = o
       /\ bg' = [p \in 1..2 |-> IF p \in Pols THEN Adv(bg[p], bn) ELSE bg[p]]
       /\ own' = [a \in 1..3 |-> [p \in 1..2 |-> IF a \in Ants /\ p \in Pols THEN Adv(own[a][p], n) ELSE own[a][p]]]
       /\ cache' = [a \in 1..3 |-> [p \in 1..2 |-> IF a \in Ants /\ p \in Pols
                                                    THEN [set |-> TRUE, v |-> SubSeq(bgv(p), bn - d(a) + 1, bn)]
                                                    ELSE cache[a][p]]]
       /\ arr' = [clock |-> arr.clock + n, start |-> FALSE]
       /\ cnt' = cnt + n
       /\ UNCHANGED <<cfg, aclk, base, skew>>
       /\ Log([name |-> "GetSamples", n |-> n], o)

(* set_time(t) on the antenna / array: every clock to t, start flags raised, carried background dropped *)
SetAll(t, a) ==
    /\ own' = [x \in 1..3 |-> [p \in 1..2 |-> IF x \in Ants /\ p \in Pols THEN [own[x][p] EXCEPT !.clock = t, !.start = TRUE] ELSE own[x][p]]]
    /\ aclk' = [x \in 1..3 |-> IF x \in Ants THEN [clock |-> t, start |-> TRUE] ELSE aclk[x]]
    /\ IF cfg.kind = "array"
       THEN /\ bg' = [p \in 1..2 |-> IF p \in Pols THEN [bg[p] EXCEPT !.clock = t, !.start = TRUE] ELSE bg[p]]
            /\ arr' = [clock |-> t, start |-> TRUE]
            /\ cache' = [x \in 1..3 |-> [p \in 1..2 |-> IF x \in Ants THEN [set |-> FALSE, v |-> <<>>] ELSE cache[x][p]]]
       ELSE UNCHANGED <<bg, arr, cache>>
    /\ base' = t /\ cnt' = 0 /\ out' = <<>>
    /\ skew' = [x \in 1..3 |-> [p \in 1..2 |-> 0]]      \* every stream is re-synchronised to the antenna's clock
    /\ UNCHANGED cfg
    /\ Log(a, <<>>)

TopClock == IF cfg.kind = "array" THEN arr.clock ELSE aclk[1].clock

SetTime(t)  == SetAll(t, [name |-> "SetTime", t |-> t])
AddTime(dt) == SetAll(TopClock + dt, [name |-> "AddTime", d |-> dt])
ResetStart  == SetAll(TopClock, [name |-> "ResetStart"])

(* update_noise(m) on one own stream: m draws are consumed, clock and start flag restored *)
UpdateNoiseOwn(a, p, m) ==
    /\ a \in Ants /\ p \in Pols
    /\ own' = [own EXCEPT ![a][p].rng = @ + m]
    /\ out' = <<>>
    /\ UNCHANGED <<cfg, aclk, bg, arr, cache, base, cnt, skew>>
    /\ Log([name |-> "UpdateNoiseOwn", a |-> a, p |-> p, m |-> m], <<>>)

UpdateNoiseBg(p, m) ==
    /\ cfg.kind = "array" /\ p \in Pols
    /\ bg' = [bg EXCEPT ![p].rng = @ + m]
    /\ out' = <<>>
    /\ UNCHANGED <<cfg, own, aclk, arr, cache, base, cnt, skew>>
    /\ Log([name |-> "UpdateNoiseBg", p |-> p, m |-> m], <<>>)

(* antenna.streams[p].get_samples(n): ONE polarisation stream of a stand-alone antenna asked directly (a look at the
   voltages between two recordings).  Only that stream moves; the antenna's clock, the other polarisation and the sample
   count of the observation do not.  The next set_time / add_time / reset_start puts every stream back on the antenna's
   clock (SetAll is absolute), so the following observation is again one timeline for both polarisations. *)
Peek(a, p, n) ==
    /\ cfg.kind = "antenna" /\ a \in Ants /\ p \in Pols
    /\ own' = [own EXCEPT ![a][p] = Adv(own[a][p], n)]
    /\ skew' = [skew EXCEPT ![a][p] = @ + n]
    /\ out' = <<>>
    /\ UNCHANGED <<cfg, aclk, bg, arr, cache, base, cnt>>
    /\ Log([name |-> "Peek", a |-> a, p |-> p, n |-> n], <<>>)

(* a request the library refuses (negative or fractional count; for arrays also a count not above the largest delay):
   it raises and leaves no trace -- clocks, start flags, draw indices and carried background are what they were *)
BadRequest(kind) ==
    /\ (kind = "small" => (cfg.kind = "array" /\ D >= 1))
    /\ out' = <<>>
    /\ UNCHANGED <<cfg, own, aclk, bg, arr, cache, base, cnt, skew>>
    /\ Log([name |-> "BadRequest", kind |-> kind, n |-> IF kind = "small" THEN D ELSE -1], <<>>)

Done == /\ EmitOn /\ Len(hist) = MaxOps
        /\ PrintT(ToJson([cfg |-> cfg, steps |-> hist]))
        /\ hist' = Append(hist, "done")
        /\ UNCHANGED <<cfg, own, aclk, bg, arr, cache, out, base, cnt, skew>>

Next ==
    \/ Done
    \/ \E n \in 1..MaxReq : GetAntenna(n)
    \/ \E n \in 1..MaxReq : GetArray(n)
    \/ \E t \in {0, 7} : SetTime(t)
    \/ \E dt \in {0, 5} : AddTime(dt)
    \/ ResetStart
    \/ \E a \in 1..3, p \in 1..2 : UpdateNoiseOwn(a, p, 3)
    \/ \E p \in 1..2 : UpdateNoiseBg(p, 2)
    \/ \E kind \in {"negative", "fractional", "small"} : BadRequest(kind)
    \/ \E a \in 1..3, p \in 1..2 : Peek(a, p, 2)

Spec == Init /\ [][Next]_vars

-----------------------------------------------------------------------------
(* C10: the samples delivered since the last set_time are ticks base, base+1, ... without gap or repeat *)
Continuity ==
    \A a \in DOMAIN out : \A p \in DOMAIN out[a] : \A j \in 1..Len(out[a][p]) :
        out[a][p][j].o = base + cnt + skew[a][p] - Len(out[a][p]) + j - 1

(* every stream's clock is exactly the next tick to deliver *)
ClockExact == \A a \in Ants, p \in Pols : own[a][p].clock = base + cnt + skew[a][p]

(* whatever was asked of single streams in between, a new observation starts with every stream on the antenna's clock *)
ResyncAtStart == (cfg.kind = "antenna" /\ aclk[1].start) =>
                     \A p \in Pols : own[1][p].start => own[1][p].clock = aclk[1].clock

(* an antenna keeps its own clock equal to its streams' (stand-alone antenna) *)
AntennaClockEqualsStreams ==
    cfg.kind = "antenna" => \A a \in Ants, p \in Pols : /\ aclk[a].clock + skew[a][p] = own[a][p].clock
                                                          /\ (skew[a][p] = 0 => aclk[a].start = own[a][p].start)

(* noise draws are consumed in order, never re-used within a request *)
NoiseInOrder ==
    \A a \in DOMAIN out : \A p \in DOMAIN out[a] : \A j \in 1..Len(out[a][p]) - 1 :
        out[a][p][j + 1].on = out[a][p][j].on + 1

(* C15: antenna a's sample k carries background sample k + D - delay[a] *)
DelayAlignment ==
    cfg.kind = "array" =>
        \A a \in DOMAIN out : \A p \in DOMAIN out[a] : \A j \in 1..Len(out[a][p]) :
            out[a][p][j].b = out[a][p][j].o + D - cfg.delays[a]

(* background samples are consecutive within a request, across the cache/new boundary *)
BgConsecutive ==
    cfg.kind = "array" =>
        \A a \in DOMAIN out : \A p \in DOMAIN out[a] : \A j \in 1..Len(out[a][p]) - 1 :
            out[a][p][j + 1].b = out[a][p][j].b + 1

(* after a request each antenna carries exactly delay[a] background samples: the ones it has not used yet *)
CacheIsUnusedTail ==
    cfg.kind = "array" =>
        \A a \in Ants, p \in Pols :
            cache[a][p].set =>
                /\ Len(cache[a][p].v) = cfg.delays[a]
                /\ \A j \in 1..Len(cache[a][p].v) : cache[a][p].v[j].id = base + cnt + D - cfg.delays[a] + j - 1

(* a new observation starts with no carried-over background *)
CacheClearedAtStart == (cfg.kind = "array" /\ arr.start) => \A a \in Ants, p \in Pols : ~cache[a][p].set

(* omitted delays mean zero delay *)
DefaultDelaysAreZero == cfg.omitted => \A a \in Ants : cfg.delays[a] = 0

(* update_noise moves no clock *)
(* a refused request leaves no trace *)
RefusedLeavesNoTrace ==
    [][(hist' # hist /\ hist'[Len(hist')].act.name = "BadRequest")
          => (own' = own /\ aclk' = aclk /\ bg' = bg /\ arr' = arr /\ cache' = cache /\ cnt' = cnt /\ skew' = skew)]_vars

UpdateNoiseKeepsClock ==
    [][(\E a \in 1..3, p \in 1..2 : own'[a][p].rng # own[a][p].rng /\ own'[a][p].clock = own[a][p].clock)
          => (aclk' = aclk /\ arr' = arr)]_vars
=============================================================================
